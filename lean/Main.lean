import Dtr.Model.RowIter
import Dtr.Model.AfterError
import Dtr.Model.Dig
/-!
# Line-protocol driver of the executable model (`lean_exe dtr_model`)

One request per line on stdin, one or more answer lines on stdout, the last of which is `end`.
All names and texts travel hex-encoded (`h` + two hex digits per UTF-8 byte).
-/
open Dtr

def hexDigit (n : Nat) : Char := if n < 10 then Char.ofNat (48 + n) else Char.ofNat (87 + n)

def hexOfString (s : String) : String :=
  "h" ++ String.ofList (s.toUTF8.toList.flatMap (fun b => [hexDigit (b.toNat / 16), hexDigit (b.toNat % 16)]))

def hexVal (c : Char) : Nat :=
  if '0' ≤ c ∧ c ≤ '9' then c.toNat - 48 else if 'a' ≤ c ∧ c ≤ 'f' then c.toNat - 87 else 0

def unhex (s : String) : String :=
  let rec go : List Char → List UInt8
    | a :: b :: rest => UInt8.ofNat (hexVal a * 16 + hexVal b) :: go rest
    | _ => []
  match s.toList with
  | 'h' :: cs => (String.fromUTF8? (ByteArray.mk (go cs).toArray)).getD ""
  | _ => ""

def showI (n : Int64) : String := toString n.toInt

def parseI (s : String) : Int64 := Int64.ofInt (s.toInt?.getD 0)

def binName : BinOp → String
  | .eq => "eq" | .ne => "ne" | .gt => "gt" | .lt => "lt" | .ge => "ge" | .le => "le"
  | .or => "or" | .xor => "xor" | .and => "and" | .shl => "shl" | .shr => "shr"
  | .add => "add" | .sub => "sub" | .mul => "mul" | .div => "div" | .rem => "rem"

def allBinOps : List BinOp :=
  [.eq, .ne, .gt, .lt, .ge, .le, .or, .xor, .and, .shl, .shr, .add, .sub, .mul, .div, .rem]

def binOfName (s : String) : Option BinOp := allBinOps.find? (fun o => binName o == s)

def unName : UnOp → String
  | .neg => "neg" | .lnot => "lnot" | .bnot => "bnot"

mutual
partial def dumpExpr : Expr → String
  | .num n => "(num " ++ showI n ++ ")"
  | .var s => "(var " ++ hexOfString s ++ ")"
  | .bin o l r => "(bin " ++ binName o ++ " " ++ dumpExpr l ++ " " ++ dumpExpr r ++ ")"
  | .un o e => "(un " ++ unName o ++ " " ++ dumpExpr e ++ ")"
  | .call f args => "(call " ++ hexOfString f ++ String.join (args.map (fun a => " " ++ dumpExpr a)) ++ ")"
end

def dumpEntry : DataEntry → String
  | .num n => "(n " ++ showI n ++ ")"
  | .expr e => "(e " ++ dumpExpr e ++ ")"
  | .bits k e => "(bits " ++ toString k ++ " " ++ dumpExpr e ++ ")"
  | .x => "X" | .z => "Z" | .c => "C"

partial def dumpStmts (ss : List Stmt) : String :=
  "[" ++ " ".intercalate (ss.map fun s =>
    match s with
    | .letS n e => "(let " ++ hexOfString n ++ " " ++ dumpExpr e ++ ")"
    | .row data line => "(row " ++ toString line ++ String.join (data.map (fun d => " " ++ dumpEntry d)) ++ ")"
    | .loop v m b => "(loop " ++ hexOfString v ++ " " ++ dumpExpr m ++ " " ++ dumpStmts b ++ ")"
    | .while c b => "(while " ++ dumpExpr c ++ " " ++ dumpStmts b ++ ")"
    | .resetRandom => "(reset)") ++ "]"

def dumpSpans (l : List (Nat × Nat)) : String :=
  "[" ++ " ".intercalate (l.map fun (s, e) => "(" ++ toString s ++ " " ++ toString e ++ ")") ++ "]"

def dumpNamed (l : List (String × (Nat × Nat))) : String :=
  "[" ++ " ".intercalate (l.map fun (n, (s, e)) => "(" ++ hexOfString n ++ " " ++ toString s ++ " " ++ toString e ++ ")") ++ "]"

def dumpParsed (p : Parsed) : String :=
  "signals=[" ++ " ".intercalate (p.signals.map hexOfString) ++ "] stmts=" ++ dumpStmts p.stmts ++
  " sigspans=" ++ dumpSpans p.sigSpans ++ " expin=" ++ dumpNamed p.expIn ++ " reads=" ++ dumpNamed p.reads ++
  " virt=[" ++ " ".intercalate (p.virt.map fun (n, (s, e), ex) =>
    "(" ++ hexOfString n ++ " " ++ toString s ++ " " ++ toString e ++ " " ++ dumpExpr ex ++ ")") ++ "]"

def dumpIdx (l : List EIdx) : String :=
  "[" ++ " ".intercalate (l.map fun i => match i with
    | .entry c s => "(e " ++ toString c ++ " " ++ toString s ++ ")"
    | .dflt s => "(d " ++ toString s ++ ")") ++ "]"

def showIn : InVal → String | .val n => showI n | .z => "Z"
def showOut : OutVal → String | .val n => showI n | .z => "Z" | .x => "X"
def showExp : ExpVal → String | .val n => showI n | .z => "Z" | .x => "X"

def sigTypeTag (s : Signal) : String :=
  match s.typ with
  | .input d => "I:" ++ showIn d
  | .output => "O:-"
  | .bidir d => "B:" ++ showIn d
  | .virt _ => "V:-"

def dumpSignals (l : List Signal) : String :=
  "[" ++ " ".intercalate (l.map fun s => hexOfString s.name ++ ":" ++ toString s.bits ++ ":" ++ sigTypeTag s) ++ "]"

def dumpTestCase (tc : TestCase) : String :=
  "signals=" ++ dumpSignals tc.signals ++ " stmts=" ++ dumpStmts tc.stmts ++ " in=" ++ dumpIdx tc.inIdx ++
  " exp=" ++ dumpIdx tc.expIdx ++ " reads=[" ++ ", ".intercalate (tc.reads.map toString) ++ "]" ++
  " virt=[" ++ " ".intercalate (tc.signals.filterMap fun s => match s.typ with
    | .virt e => some ("(" ++ hexOfString s.name ++ " " ++ dumpExpr e ++ ")")
    | _ => none) ++ "]"

def kindName (k : Kind) : String := (reprStr k).replace "Dtr.Kind." ""

def dumpToks (l : List Tok) : String :=
  " ".intercalate (l.map fun t => kindName t.kind ++ ":" ++ toString t.s ++ ":" ++ toString t.e)

def sigName (tc : TestCase) (i : Nat) : String := hexOfString ((tc.signals[i]?.map (·.name)).getD "?")

def dumpInputs (tc : TestCase) (l : List InEntry) : String :=
  "[" ++ ",".intercalate (l.map fun e => sigName tc e.sig ++ "=" ++ showIn e.value ++ "/" ++ (if e.changed then "1" else "0")) ++ "]"

def dumpOutputs (tc : TestCase) (r : DataRow) : String :=
  let failing := r.failingOutputs
  "[" ++ ",".intercalate (r.outputs.map fun e => sigName tc e.sig ++ ":" ++ showOut e.output ++ ":" ++ showExp e.expected ++
      ":" ++ (if e.check then "p" else "f") ++ (if e.isChecked then "c" else "u") ++
      (if failing.contains e then "F" else "-")) ++ "]"

def sortVars (l : List (String × Int64)) : List (String × Int64) :=
  (l.toArray.qsort (fun a b => a.1 < b.1)).toList

def dumpVars (l : List (String × Int64)) : String :=
  "[" ++ ",".intercalate ((sortVars l).map fun (k, v) => hexOfString k ++ "=" ++ showI v) ++ "]"

def errClass : IterErr → String
  | .driver e => "driver:" ++ toString e
  | .wrongNumberOfOutputs .. => "runtime"
  | .wrongOutputOrder => "runtime"
  | .missingOutputs _ => "runtime"
  | .expr _ => "runtime"

def errDetail : IterErr → String
  | .driver e => "driver " ++ toString e
  | .wrongNumberOfOutputs a b => "wrongNumberOfOutputs " ++ toString a ++ " " ++ toString b
  | .wrongOutputOrder => "wrongOutputOrder"
  | .missingOutputs n => "missingOutputs " ++ " ".intercalate n
  | .expr e => "expr " ++ reprStr e

/-! ## request parsing -/

structure Cur where
  toks : List String
  deriving Inhabited

def Cur.next (c : Cur) : String × Cur :=
  match c.toks with
  | [] => ("", c)
  | t :: ts => (t, ⟨ts⟩)

def Cur.nat (c : Cur) : Nat × Cur := let (t, c) := c.next; (t.toNat?.getD 0, c)

def parseInVal (s : String) : InVal := if s == "Z" then .z else .val (parseI s)
def parseOutVal (s : String) : OutVal := if s == "Z" then .z else if s == "X" then .x else .val (parseI s)

/-- `<hexname> <bits> <I|O|B> <default>` -/
def Cur.signal (c : Cur) : Signal × Cur :=
  let (n, c) := c.next
  let (b, c) := c.nat
  let (t, c) := c.next
  let (d, c) := c.next
  -- "V": an entry of a driver answer for one of the test's own declared signals; resolved against the bound test
  let typ : SigType := if t == "I" then .input (parseInVal d) else if t == "B" then .bidir (parseInVal d)
    else if t == "V" then .virt (.num 0) else .output
  ({ name := unhex n, bits := b, typ := typ }, c)

def Cur.many {α} (c : Cur) (n : Nat) (f : Cur → α × Cur) : List α × Cur :=
  match n with
  | 0 => ([], c)
  | n+1 =>
    let (a, c) := f c
    let (as, c) := c.many n f
    (a :: as, c)

/-- `F <code>` | `O <k> (<signal> <val>)*k` -/
def Cur.resp (c : Cur) : DrvResp × Cur :=
  let (t, c) := c.next
  if t == "F" then
    let (e, c) := c.nat
    (.fail e, c)
  else
    let (k, c) := c.nat
    let (outs, c) := c.many k (fun c =>
      let (s, c) := c.signal
      let (v, c) := c.next
      ((s, parseOutVal v), c))
    (.ok outs, c)

/-- scripted driver: one script entry per call of either kind; an exhausted script fails with 999 -/
def scriptDriver (ownWo : Bool) : Driver (List DrvResp) :=
  let rw : List DrvResp → List InEntry → List DrvResp × DrvResp := fun d _ =>
    match d with
    | [] => ([], .fail 999)
    | r :: rs => (rs, r)
  { rw := rw,
    wo := if ownWo then
        (fun d _ => match d with
          | [] => ([], some 999)
          | .fail e :: rs => (rs, some e)
          | .ok _ :: rs => (rs, none))
      else Driver.defaultWo rw }

/-- epochs of `(bound, value)` pairs → the table of the abstract generator -/
def rngTable (epochs : List (List (Int64 × Int64))) : List (List Int64 × Int64) :=
  epochs.flatMap fun ep =>
    (List.range ep.length).map fun k => ((ep.take (k + 1)).map (·.1), (ep[k]?.map (·.2)).getD 0)

def rngOfTable (tab : List (List Int64 × Int64)) : Rng :=
  { f := fun hist => ((tab.find? (fun e => e.1 == hist)).map (·.2)).getD (-7777) }

/-- the call as the driver observes it: one that relies on the provided `write_input` only ever sees
`write_input_and_read_output` -/
def callLine (ownWo : Bool) (tc : TestCase) (c : Call) : String :=
  "call " ++ (match c.kind with | .readWrite => "rw" | .writeOnly => if ownWo then "wo" else "rw") ++ " in=" ++ dumpInputs tc c.inputs

/-- does the expression draw random numbers? -/
partial def exprHasRandom : Expr → Bool
  | .num _ => false
  | .var _ => false
  | .un _ e => exprHasRandom e
  | .bin _ l r => exprHasRandom l || exprHasRandom r
  | .call f args => f == "random" || args.any exprHasRandom

/-- where an evaluation error struck: the statement (or loop state) of the innermost active iterator and its
nesting depth — for the evidence only (distribution of the error sites the continued runs went through) -/
partial def errSiteOf : It → Nat → String
  | .mk rest st, depth =>
    match st with
    | .iterate =>
      match rest with
      | (.letS _ _) :: _ => "let@" ++ toString depth
      | (.row _ _) :: _ => "row@" ++ toString depth
      | (.loop _ _ _) :: _ => "loop-header@" ++ toString depth
      | _ => "other@" ++ toString depth
    | .inner it _ => errSiteOf it (depth + 1)
    | .whileInner it _ => errSiteOf it (depth + 1)
    | .startWhile _ => "while-condition@" ++ toString depth
    | _ => "other@" ++ toString depth

/-- the iterator in front of the failing turn of a `next_with_context` that returns an error -/
partial def failingIt (fuel : Nat) (it : It) (c : Ctx) : Option It :=
  if fuel == 0 then none else
  match step it c with
  | .cont it' c' => failingIt (fuel - 1) it' c'
  | .err _ => some it
  | _ => none

/-- Items of a run.  Up to and including the first error item this is what every comparison uses.  Behind a
`posterr` marker the run is continued behind every error item — the state `RowIt.nextC` returns there is the one
the code is left in (`Model/AfterError`): behind an error of the IO step, behind an evaluation error (the failing
statement is skipped, a failing `while` condition is tried again), with the generator advanced by the draws that
were made before the failure — up to five error items in all. -/
partial def runItems (ownWo : Bool) (tc : TestCase) (drv : Driver (List DrvResp)) (cap : Nat) (k : Nat) (s : RowIt) (d : List DrvResp)
    (nErr : Nat) (virtRandom : Bool) (acc : Array String) : Array String :=
  if k ≥ cap then acc.push ("item " ++ toString k ++ " cap")
  else
    match s.nextC tc drv 200000 d with
    | .panic m calls =>
      let acc := calls.foldl (fun a c => a.push (callLine ownWo tc c)) acc
      acc.push ("item " ++ toString k ++ " panic " ++ m)
    | .fuel => acc.push ("item " ++ toString k ++ " fuel")
    | .none s' d' =>
      -- `None` must be sticky and silent: ask twice more
      let again := match s'.nextC tc drv 200000 d' with
        | .none s'' d'' => (match s''.nextC tc drv 200000 d'' with | .none _ _ => true | _ => false)
        | _ => false
      (acc.push ("item " ++ toString k ++ " none" ++ (if again then "" else " NOT-STICKY"))).push
        ("rng draws=" ++ toString s'.ctx.rng.total)
    | .item (.err e) s' d' calls =>
      let acc := calls.foldl (fun a c => a.push (callLine ownWo tc c)) acc
      let acc := (acc.push ("item " ++ toString k ++ " err " ++ errClass e)).push ("# " ++ errDetail e)
      let acc := if calls.isEmpty && s.cache.isEmpty then
          (match failingIt 200000 s.it s.ctx with
           | some it => acc.push ("# errsite " ++ errSiteOf it 0)
           | none => acc)
        else acc
      let acc := if nErr == 0 then acc.push "posterr" else acc
      if nErr + 1 ≥ 5 then acc
      else runItems ownWo tc drv cap (k + 1) s' d' (nErr + 1) virtRandom acc
    | .item (.row r) s' d' calls =>
      let acc := calls.foldl (fun a c => a.push (callLine ownWo tc c)) acc
      let acc := acc.push ("item " ++ toString k ++ " row line=" ++ toString r.line ++ " in=" ++ dumpInputs tc r.inputs ++
        " out=" ++ dumpOutputs tc r ++ " vars=" ++ dumpVars s'.vars)
      runItems ownWo tc drv cap (k + 1) s' d' nErr virtRandom acc

partial def runStatic (tc : TestCase) (cap : Nat) (k : Nat) (s : RowIt) (nErr : Nat) (acc : Array String) : Array String :=
  if k ≥ cap then acc.push ("sitem " ++ toString k ++ " cap")
  else
    match s.nextC tc staticDriver 200000 () with
    | .panic m _ => acc.push ("sitem " ++ toString k ++ " panic " ++ m)
    | .fuel => acc.push ("sitem " ++ toString k ++ " fuel")
    | .none _ _ => acc.push ("sitem " ++ toString k ++ " none")
    | .item (.err (.driver _)) _ _ _ => acc.push ("sitem " ++ toString k ++ " panic unreachable")
    | .item (.err e) s' _ _ =>
      -- continued behind error items (up to five), behind a `posterr` marker, like the dynamic run
      let acc := (acc.push ("sitem " ++ toString k ++ " err runtime")).push ("# " ++ errDetail e)
      let acc := if nErr == 0 then acc.push "posterr" else acc
      if nErr + 1 ≥ 5 then acc else runStatic tc cap (k + 1) s' (nErr + 1) acc
    | .item (.row r) s' _ _ =>
      let acc := acc.push ("sitem " ++ toString k ++ " row line=" ++ toString r.line ++ " in=" ++ dumpInputs tc r.inputs ++
        " exp=[" ++ ",".intercalate (r.outputs.map fun e => sigName tc e.sig ++ ":" ++ showExp e.expected) ++ "]")
      runStatic tc cap (k + 1) s' nErr acc

/-- `run <hexsrc> <nsig> sig* <ownWo> <ncalls> resp* <nepochs> (<len> (<bound> <value>)*len)* <cap> <static:0|1>` -/
def cmdRun (c : Cur) : Array String := Id.run do
  let (src, c) := c.next
  let (nsig, c) := c.nat
  let (sigs, c) := c.many nsig Cur.signal
  let (ownWo, c) := c.nat
  let (ncalls, c) := c.nat
  let (script, c) := c.many ncalls Cur.resp
  let (nep, c) := c.nat
  let (epochs, c) := c.many nep (fun c =>
    let (len, c) := c.nat
    c.many len (fun c =>
      let (b, c) := c.next
      let (v, c) := c.next
      ((parseI b, parseI v), c)))
  let (cap, c) := c.nat
  let (doStatic, _) := c.nat
  let mut out : Array String := #[]
  match parseTest (unhex src).toList with
  | .err _ spans => out := out.push ("parse err " ++ dumpSpans spans)
  | .panic m => out := out.push ("parse panic " ++ m)
  | .fuel => out := out.push "parse fuel"
  | .ok p =>
    out := out.push ("parse ok " ++ dumpParsed p)
    match withSignals p sigs with
    | .err e => out := (out.push "bind err").push ("# " ++ e)
    | .panic m => out := out.push ("bind panic " ++ m)
    | .ok tc =>
      out := out.push ("bind ok " ++ dumpTestCase tc)
      -- answers that carry entries for the test's own virtual signals: put the real signal in
      let script := script.map (fun r => match r with
        | .ok outs => DrvResp.ok (outs.map (fun (sg, v) => match sg.typ with
            | .virt _ => (match tc.signals.find? (fun x => x.name == sg.name && x.isVirtual) with
                | some x => (x, v)
                | none => (sg, v))
            | _ => (sg, v)))
        | r => r)
      let rng := rngOfTable (rngTable epochs)
      let drv := scriptDriver (ownWo == 1)
      if doStatic == 1 then
        match tryIterStatic tc rng with
        | .notStatic _ => out := out.push "static notstatic"
        | .panic m => out := out.push ("static panic " ++ m)
        | .ok s =>
          out := out.push "static ok"
          out := runStatic tc cap 0 s 0 out
      else
        match tryNew tc drv script rng with
        | .panic m => out := out.push ("ctor panic " ++ m)
        | .err e _ log =>
          out := log.foldl (fun a c => a.push (callLine (ownWo == 1) tc c)) out
          out := (out.push ("ctor err " ++ errClass e)).push ("# " ++ errDetail e)
        | .ok s d log =>
          out := log.foldl (fun a c => a.push (callLine (ownWo == 1) tc c)) out
          out := out.push "ctor ok"
          let virtRandom := tc.signals.any (fun sg => match sg.typ with | .virt e => exprHasRandom e | _ => false)
          out := runItems (ownWo == 1) tc drv cap 0 s d 0 virtRandom out
  return out

def cmdLex (c : Cur) : Array String :=
  let (src, _) := c.next
  #["toks " ++ dumpToks (lexBodyAll 0 (unhex src).toList)]

def cmdTestToks (c : Cur) : Array String :=
  let (src, _) := c.next
  match parseHeaderAll (unhex src).toList with
  | .err spans => #["hdr err " ++ dumpSpans spans]
  | .ok names line off rest =>
    #["hdr ok [" ++ " ".intercalate (names.map fun (n, s, e) => hexOfString n ++ ":" ++ toString s ++ ":" ++ toString e) ++
      "] line=" ++ toString line ++ " toks " ++ dumpToks (lexBodyAll off rest)]

def cmdParse (c : Cur) : Array String :=
  let (src, _) := c.next
  match parseTest (unhex src).toList with
  | .err _ spans => #["parse err " ++ dumpSpans spans]
  | .panic m => #["parse panic " ++ m]
  | .fuel => #["parse fuel"]
  | .ok p => #["parse ok " ++ dumpParsed p]

def cmdBinop (c : Cur) : Array String :=
  let (o, c) := c.next
  let (l, c) := c.next
  let (r, _) := c.next
  match binOfName o with
  | none => #["binop unknown"]
  | some op =>
    match op.eval (parseI l) (parseI r) with
    | some v => #["binop " ++ showI v]
    | none => #["binop err"]

def cmdUnop (c : Cur) : Array String :=
  let (o, c) := c.next
  let (v, _) := c.next
  let op : UnOp := if o == "neg" then .neg else if o == "lnot" then .lnot else .bnot
  #["unop " ++ showI (op.eval (parseI v))]

def cmdTables (_ : Cur) : Array String :=
  #["prec " ++ " ".intercalate (allBinOps.map fun o => binName o ++ ":" ++ toString o.prec),
    "funcs random:" ++ toString ((funcArity "random").getD 99) ++ " ite:" ++ toString ((funcArity "ite").getD 99) ++
      " signExt:" ++ toString ((funcArity "signExt").getD 99)]

/-! ## `.dig` documents: the DOM dump of the hook is read back -/

partial def readXml : List String → Option (Xml × List String)
  | "(" :: "o" :: ")" :: rest => some (.other, rest)
  | "(" :: "t" :: h :: ")" :: rest => some (.text (unhex h), rest)
  | "(" :: "e" :: tag :: "(" :: rest =>
    let rec attrs (ts : List String) (acc : List (String × String)) : Option (List (String × String) × List String) :=
      match ts with
      | ")" :: rest => some (acc, rest)
      | "(" :: k :: v :: ")" :: rest => attrs rest (acc ++ [(unhex k, unhex v)])
      | _ => none
    match attrs rest [] with
    | none => none
    | some (as, rest) =>
      let rec kids (ts : List String) (acc : List Xml) : Option (List Xml × List String) :=
        match ts with
        | ")" :: rest => some (acc, rest)
        | _ => match readXml ts with
          | some (c, rest) => kids rest (acc ++ [c])
          | none => none
      match kids rest [] with
      | some (cs, rest) => some (.elem (unhex tag) as cs, rest)
      | none => none
  | _ => none

/-- every parenthesis becomes a token of its own -/
def xmlTokens (s : String) : List String :=
  let padded := String.ofList (s.toList.flatMap fun c => if c == '(' || c == ')' then [' ', c, ' '] else [c])
  (padded.splitOn " ").filter (· ≠ "")

def loadLine (tag : String) (r : LoadRes) : String :=
  match r with
  | .ok tc => tag ++ " ok " ++ dumpTestCase tc
  | .indexOutOfBounds => tag ++ " err index"
  | .notFound => tag ++ " err notfound"
  | .parseErr _ => tag ++ " err parse"
  | .bindErr => tag ++ " err bind"
  | .panic m => tag ++ " panic " ++ m

/-- `dig <dom dump tokens…> | <hexname>*` — the names to look up follow a `|` -/
def cmdDig (c : Cur) : Array String := Id.run do
  let all := " ".intercalate c.toks
  let parts := all.splitOn " | "
  let dump := parts.headD ""
  let names := ((parts.drop 1).headD "").splitOn " " |>.filter (· ≠ "")
  match readXml (xmlTokens dump) with
  | none => return #["dig bad-dump"]
  | some (doc, _) =>
    match digParse doc with
    | .panic m => return #["dig panic " ++ m]
    | .err .emptyTest => return #["dig err", "# emptytest"]
    | .err (.missingSignals _) => return #["dig err", "# missing"]
    | .ok f =>
      let mut out : Array String := #["dig ok signals=" ++ dumpSignals f.signals ++ " tests=[" ++
        " ".intercalate (f.tests.map fun t => "(" ++ hexOfString t.name ++ " " ++ hexOfString t.source ++ ")") ++ "]"]
      for i in List.range (f.tests.length + 1) do
        out := out.push (loadLine ("load " ++ toString i) (loadTest f i))
      for n in names do
        out := out.push (loadLine ("byname " ++ n) (loadTestByName f (unhex n)))
      return out

def handle (line : String) : Array String :=
  let toks := (line.trimAscii.toString.splitOn " ").filter (· ≠ "")
  match toks with
  | "run" :: rest => cmdRun ⟨rest⟩
  | "lex" :: rest => cmdLex ⟨rest⟩
  | "ttoks" :: rest => cmdTestToks ⟨rest⟩
  | "parse" :: rest => cmdParse ⟨rest⟩
  | "binop" :: rest => cmdBinop ⟨rest⟩
  | "unop" :: rest => cmdUnop ⟨rest⟩
  | "tables" :: rest => cmdTables ⟨rest⟩
  | "dig" :: rest => cmdDig ⟨rest⟩
  | _ => #["bad-request"]

partial def loop (h : IO.FS.Stream) (out : IO.FS.Stream) : IO Unit := do
  let line ← h.getLine
  if line.isEmpty then return ()
  for l in handle line do
    out.putStrLn l
  out.putStrLn "end"
  out.flush
  loop h out

def main : IO Unit := do
  let out ← IO.getStdout
  loop (← IO.getStdin) out
  out.flush
