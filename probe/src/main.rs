//! usage: dtr_probe <n>        — parses a test that uses one identifier of n characters,
//!        dtr_probe chain <n>  — parses a test whose one row entry is the flat sum `(1+1+…+1)` of n terms,
//! on a thread with a 2 MiB stack.  Prints `probe ok` / `probe err`; a native stack overflow aborts the process
//! (SIGABRT), which the caller sees.
fn main() {
    let args: Vec<String> = std::env::args().skip(1).collect();
    let (chain, n) = match args.as_slice() {
        [m, n] if m == "chain" => (true, n.parse().unwrap_or(1000usize)),
        [n] => (false, n.parse().unwrap_or(1000usize)),
        _ => (false, 1000usize),
    };
    let h = std::thread::Builder::new()
        .stack_size(2 << 20)
        .spawn(move || {
            let src = if chain {
                format!("A\n({})\n", vec!["1"; n].join("+"))
            } else {
                let name = "v".repeat(n);
                format!("A Y\nlet {name} = 1;\n({name}) 1\n")
            };
            src.parse::<digital_test_runner::ParsedTestCase>().is_ok()
        })
        .expect("cannot start a thread");
    match h.join() {
        Ok(ok) => println!("probe {}", if ok { "ok" } else { "err" }),
        Err(_) => println!("probe panic"),
    }
}
