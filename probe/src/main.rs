//! usage: dtr_probe <n> — parses a test that uses one identifier of n characters, on a thread with a 2 MiB stack.
//! Prints `probe ok` / `probe err`; a native stack overflow aborts the process (SIGABRT), which the caller sees.
fn main() {
    let n: usize = std::env::args().nth(1).and_then(|a| a.parse().ok()).unwrap_or(1000);
    let h = std::thread::Builder::new()
        .stack_size(2 << 20)
        .spawn(move || {
            let name = "v".repeat(n);
            let src = format!("A Y\nlet {name} = 1;\n({name}) 1\n");
            src.parse::<digital_test_runner::ParsedTestCase>().is_ok()
        })
        .expect("cannot start a thread");
    match h.join() {
        Ok(ok) => println!("probe {}", if ok { "ok" } else { "err" }),
        Err(_) => println!("probe panic"),
    }
}
