#!/bin/bash
# Runs the quick check of the broken property (and of every other claimed property when ALL=1) against each seeded
# change in /verif/seeded, in a scratch copy (worktree of /repo + copy of /verif) so that /repo itself is never touched
# while work goes on.  Results: /tmp/seedeval/results.tsv
set -u
S=${S:-/tmp/seedeval}   # scratch directory; several evaluations can run side by side with different S
rm -rf $S/verif; mkdir -p $S
[ -d $S/repo ] || git -C /repo worktree add -q --detach $S/repo HEAD
git -C $S/repo checkout -q --detach $(git -C /repo rev-parse HEAD) && git -C $S/repo checkout -q -- .
mkdir -p $S/verif && rsync -a --exclude harness/target --exclude lean/.lake --exclude .git --exclude replays ${VSRC:-/verif}/ $S/verif/
sed -i "s#path = \"/repo\"#path = \"$S/repo\"#" $S/verif/harness/Cargo.toml $S/verif/probe/Cargo.toml
sed -i "s#/repo/Cargo.lock#$S/repo/Cargo.lock#" $S/verif/tools/gen_nd.py
sed -i "s#/verif/lean/Dtr/Generated#$S/verif/lean/Dtr/Generated#" $S/verif/tools/gen_nd.py
export VERIF_CORPUS=$S/verif/corpus
cd $S/verif && python3 tools/gen_nd.py && (cd lean && lake build Dtr dtr_model >/dev/null 2>&1); (cd harness && CARGO_NET_OFFLINE=true cargo build --offline >/dev/null 2>&1)
out=$S/results.tsv; : > $out
claimed=$(python3 -c "import json;print(' '.join(c['property_id'] for c in json.load(open('MANIFEST.json'))['checks']))")
for d in $S/verif/seeded/*/; do
  id=$(basename $d); prop=${id%%-*}; [ -n "${ONLY:-}" ] && ! echo "$id" | grep -q "$ONLY" && continue
  # SHARD=i/n: only every n-th seed, starting with the i-th
  n_seen=$((${n_seen:--1}+1)); if [ -n "${SHARD:-}" ]; then [ $((n_seen % ${SHARD#*/})) -eq ${SHARD%/*} ] || continue; fi
  git -C $S/repo checkout -q -- . ; git -C $S/repo apply $d/patch.diff || { echo -e "$id\tPATCH-FAILED" >> $out; continue; }
  plist="$prop"; [ "${ALL:-0}" = "1" ] && plist="$claimed"
  for p in $plist; do
    echo "$claimed" | grep -qw $p || { echo -e "$id\t$p\tnot-claimed" >> $out; continue; }
    res=$(cd $S/verif && timeout 600 ./check $p quick 2>&1); rc=$?
    v=$(echo "$res" | grep -c "^VIOLATION"); nf=$(echo "$res" | grep -c "no-failing-input-found")
    first=$(echo "$res" | grep -E "^\s+\[(oracle|model)\]" | head -1 | cut -c1-200)
    echo -e "$id\t$p\trc=$rc\tviolations=$v\tno_failing_input=$nf\t$first" >> $out
  done
done
git -C $S/repo checkout -q -- .
echo DONE >> $out
