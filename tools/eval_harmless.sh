#!/bin/bash
# Runs ALL claimed quick checks against each behaviour-preserving refactoring under /tmp/wt/H*/_out/patch*.diff in a
# scratch copy (worktree of /repo + copy of /verif).  A VIOLATION here is a false alarm.  Results: /tmp/seedeval/harmless.tsv
set -u
S=${S:-/tmp/seedeval}   # scratch directory; several evaluations can run side by side with different S
rm -rf $S/verif; mkdir -p $S
[ -d $S/repo ] || git -C /repo worktree add -q --detach $S/repo HEAD
git -C $S/repo checkout -q --detach $(git -C /repo rev-parse HEAD) && git -C $S/repo checkout -q -- . && git -C $S/repo clean -fdq
mkdir -p $S/verif && rsync -a --exclude harness/target --exclude lean/.lake --exclude .git --exclude replays /verif/ $S/verif/
sed -i "s#path = \"/repo\"#path = \"$S/repo\"#" $S/verif/harness/Cargo.toml $S/verif/probe/Cargo.toml
sed -i "s#/repo/Cargo.lock#$S/repo/Cargo.lock#" $S/verif/tools/gen_nd.py
sed -i "s#/verif/lean/Dtr/Generated#$S/verif/lean/Dtr/Generated#" $S/verif/tools/gen_nd.py
export VERIF_CORPUS=$S/verif/corpus
cd $S/verif && python3 tools/gen_nd.py && (cd lean && lake build Dtr dtr_model >/dev/null 2>&1); (cd harness && CARGO_NET_OFFLINE=true cargo build --offline >/dev/null 2>&1)
out=$S/harmless.tsv; : > $out
claimed=$(python3 -c "import json;print(' '.join(c['property_id'] for c in json.load(open('MANIFEST.json'))['checks']))")
[ -n "${PROPS:-}" ] && claimed="$PROPS"
for patch in ${PATCHES:-/tmp/wt/H*/_out/patch*.diff}; do
  id=$(echo $patch | sed 's#/tmp/wt/##; s#/_out/patch#-#; s#.diff##')
  git -C $S/repo checkout -q -- . ; git -C $S/repo clean -fdq
  git -C $S/repo apply $patch || { echo -e "$id\tPATCH-FAILED" >> $out; continue; }
  for p in $claimed; do
    res=$(cd $S/verif && timeout 900 ./check $p quick 2>&1); rc=$?
    v=$(echo "$res" | grep -c "^VIOLATION"); nf=$(echo "$res" | grep -c "no-failing-input-found")
    first=$(echo "$res" | grep -E "^\s+\[(oracle|model)\]|machinery failure|PROBLEM" | head -1 | cut -c1-220)
    [ $rc -ne 0 ] && echo -e "$id\t$p\trc=$rc\tviolations=$v\tno_failing_input=$nf\t$first" >> $out
  done
  echo -e "$id\tdone" >> $out
done
git -C $S/repo checkout -q -- . ; git -C $S/repo clean -fdq
echo DONE >> $out
