#!/usr/bin/env python3
"""Imports confirmed seeded changes of one round from /tmp/wt/Cxx/_out into /verif/seeded/Cxx-r<round>-k.
usage: import_round.py <round> <confirm.tsv> <base_commit> <origin text>"""
import sys, os, shutil, json, re
rnd, tsv, base, origin = sys.argv[1], sys.argv[2], sys.argv[3], sys.argv[4]
for line in open(tsv):
    w = line.rstrip("\n").split("\t")
    if len(w) < 8:
        continue
    pid, k = w[0], w[1]
    conf = dict(x.split("=", 1) for x in w[2:])
    ok = (conf["applies"] == "yes" and conf["demo_clean_rc"] == "0" and conf["demo_patched_rc"] != "0"
          and conf["suite_rc"] == "0" and conf["hooks_build_rc"] == "0")
    if not ok:
        print("NOT CONFIRMED", pid, k, conf)
        continue
    src = f"/tmp/wt/{pid}/_out"
    dst = f"/verif/seeded/{pid}-r{rnd}-{k}"
    os.makedirs(dst, exist_ok=True)
    shutil.copy(f"{src}/patch{k}.diff", f"{dst}/patch.diff")
    shutil.copy(f"{src}/demo{k}.rs", f"{dst}/demo.rs")
    if os.path.exists(f"{src}/NOTES.md"):
        shutil.copy(f"{src}/NOTES.md", f"{dst}/NOTES.md")
    meta = {"property": pid, "variant": int(k), "round": int(rnd), "origin": origin,
            "needs_to_manifest": f"see NOTES.md (section for change {k})",
            "confirmed_by": "tools/confirm_seeded.sh in the scratch worktree: " + ", ".join(f"{a}={b}" for a, b in conf.items()),
            "confirmed": conf, "base_commit": base}
    json.dump(meta, open(f"{dst}/meta.json", "w"), indent=1)
    print("imported", dst)
