#!/bin/bash
# usage: tools/soak.sh <first-seed> <last-seed> [props...] — runs the quick checks over a range of seeds and
# prints every run that did not hold (to be resolved in the model/harness unless the property says the code is wrong)
cd "$(dirname "$0")/.." || exit 2
a=$1; b=$2; shift 2
props="$@"
[ -z "$props" ] && props=$(python3 -c "import json;print(' '.join(c['property_id'] for c in json.load(open('MANIFEST.json'))['checks']))")
python3 tools/gen_nd.py && (cd lean && lake build Dtr dtr_model >/dev/null 2>&1) && (cd harness && CARGO_NET_OFFLINE=true cargo build --offline >/dev/null 2>&1)
bad=0
for p in $props; do
  for s in $(seq $a $b); do
    out=$(VERIF_SEED=$s ./check $p quick 2>&1); rc=$?
    if [ $rc -ne 0 ]; then bad=$((bad+1)); echo "### $p seed=$s rc=$rc"; echo "$out" | head -8; fi
  done
  echo "soaked $p seeds $a..$b"
done
echo "SOAK DONE bad=$bad"
