#!/bin/bash
# usage: tools/thorough_all.sh [props...] — runs the thorough check of every claimed property once and prints the last line
# of each (and the first lines of anything that did not hold)
cd "$(dirname "$0")/.." || exit 2
props="$@"
[ -z "$props" ] && props=$(python3 -c "import json;print(' '.join(c['property_id'] for c in json.load(open('MANIFEST.json'))['checks']))")
bad=0
for p in $props; do
  t0=$(date +%s)
  out=$(./check $p thorough 2>&1); rc=$?
  echo "$p rc=$rc $(( $(date +%s) - t0 )) s :: $(echo "$out" | tail -1)"
  if [ $rc -ne 0 ]; then bad=$((bad+1)); echo "$out" | head -12; fi
done
echo "THOROUGH DONE bad=$bad"
