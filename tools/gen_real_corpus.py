#!/usr/bin/env python3
"""Writes corpus cases from the `.dig` documents that come with the crate (/repo/tests/data/*.dig, written by Digital itself):
one case per test — the test's source, the circuit's pins as the signal list (an input whose `<name>_out` column is used and
that has no pin of that name is bidirectional) — expecting that the text parses, binds and runs without a panic.  The cases are
committed (corpus/all/real_*.case); run this again only when the crate's own test data changes."""
import glob, os, re, sys
import xml.etree.ElementTree as ET
ROOT = os.path.dirname(os.path.dirname(os.path.abspath(__file__)))
out_dir = os.path.join(ROOT, "corpus", "all")
n = 0
for path in sorted(glob.glob("/repo/tests/data/*.dig")):
    try:
        root = ET.parse(path).getroot()
    except ET.ParseError:
        continue
    pins, tests = [], []
    for ve in root.iter("visualElement"):
        kind = (ve.findtext("elementName") or "")
        attrs = {}
        ea = ve.find("elementAttributes")
        if ea is not None:
            for entry in ea.findall("entry"):
                ch = list(entry)
                if len(ch) >= 2 and ch[0].tag == "string":
                    attrs[ch[0].text] = ch[-1]
        if kind in ("In", "Clock", "Out") and "Label" in attrs and (attrs["Label"].text or ""):
            bits = int(attrs["Bits"].text) if "Bits" in attrs and (attrs["Bits"].text or "").isdigit() else 1
            default = "0"
            if "InDefault" in attrs:
                v = attrs["InDefault"]
                default = "Z" if v.get("z") == "true" else (v.get("v") or "0")
            pins.append((attrs["Label"].text, bits, "out" if kind == "Out" else "in", default))
        if kind == "Testcase" and "Testdata" in attrs:
            ds = attrs["Testdata"].find("dataString")
            if ds is not None and ds.text:
                tests.append(ds.text)
    names = {p[0] for p in pins}
    for i, src in enumerate(tests):
        if "\r" in src or any(ord(c) > 126 for c in src):
            continue
        header = next((l.split() for l in src.split("\n") if l.strip()), [])
        sigs = []
        for (name, bits, d, default) in pins:
            if d == "in" and (name + "_out") in header and (name + "_out") not in names:
                d = "bidir"
            sigs.append(f"sig {name} {bits} {d} {default if d != 'out' else '-'}")
        base = os.path.splitext(os.path.basename(path))[0]
        body = src if src.endswith("\n") else src + "\n"
        text = (f"# a test that comes with the crate: tests/data/{os.path.basename(path)}, test {i} (written by Digital)\n"
                + "\n".join(sigs) + "\nexpect no-panic\nexpect parse-ok\nexpect bind-ok\nsrc-begin\n" + body + "src-end\n")
        if not src.endswith("\n"):
            text = text.replace("expect no-panic\n", "expect no-panic\nno-trailing-newline\n").replace(body + "src-end\n", src + "\nsrc-end\n")
        open(os.path.join(out_dir, f"real_{base}_{i}.case"), "w").write(text)
        n += 1
print(n, "cases written")
