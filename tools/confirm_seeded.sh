#!/bin/bash
# Confirms every seeded change delivered under /tmp/wt/Cxx/_out: on the clean tree the demo passes; with the
# patch the existing suite passes and the demo fails.  Writes /tmp/wt/confirm.tsv
export CARGO_NET_OFFLINE=true CARGO_TARGET_DIR=/tmp/wt/target-shared
out=/tmp/wt/confirm.tsv; : > $out
for d in ${DIRS:-/tmp/wt/C*/}; do
  id=$(basename $d)
  for k in 1 2 3 4; do
    patch=$d/_out/patch$k.diff; demo=$d/_out/demo$k.rs
    [ -f "$patch" ] && [ -f "$demo" ] || continue
    cd $d && git checkout -q -- . && rm -f tests/demo_*.rs
    cp $demo tests/demo_${id}_$k.rs
    cargo test --offline --test demo_${id}_$k >/tmp/wt/log_clean 2>&1; clean_rc=$?
    if git apply $patch 2>/dev/null; then applies=yes; else applies=no; fi
    cargo build --offline --features verif-hooks >/tmp/wt/log_hooks 2>&1; hooks_rc=$?
    cargo test --offline --test demo_${id}_$k >/tmp/wt/log_demo 2>&1; demo_rc=$?
    rm -f tests/demo_${id}_$k.rs
    cargo test --offline --workspace --no-fail-fast >/tmp/wt/log_suite 2>&1; suite_rc=$?
    passed=$(grep -E "^test result" /tmp/wt/log_suite | awk '{s+=$4} END {print s}')
    git checkout -q -- . 
    echo -e "$id\t$k\tapplies=$applies\tdemo_clean_rc=$clean_rc\tdemo_patched_rc=$demo_rc\tsuite_rc=$suite_rc\tsuite_passed=$passed\thooks_build_rc=$hooks_rc" >> $out
  done
done
echo DONE >> $out
