#!/usr/bin/env python3
"""Systematic first-order mutation of the crate's source, as a measure of what the quick checks see.

usage: tools/mutate.py <worker-id> <n-workers> [max-mutants]

Each worker owns a scratch copy (/tmp/mut/w<id>: a git worktree of /repo + a copy of /verif), takes every n-th
mutant of a deterministic list, applies it, and records in /tmp/mut/results.<id>.tsv what happened:
  nocompile | killed-by-tests | killed-by-check:<prop> | SURVIVED | timeout
Nothing is ever written to /repo or /verif.  A survivor is either an equivalent mutant or a gap in the checks and
has to be looked at by hand (tools/../mutation/SURVIVORS.md).
"""
import os, re, subprocess, sys, json, hashlib

FILES = ["src/stmt.rs", "src/expr.rs", "src/eval_context.rs", "src/framed_map.rs", "src/data_row_iterator.rs",
         "src/parsed_test_case.rs", "src/parser/mod.rs", "src/parser/stmt.rs", "src/parser/expr.rs",
         "src/parser/binoptree.rs", "src/lexer/mod.rs", "src/dig.rs", "src/lib.rs", "src/value.rs", "src/static_test.rs"]

# (regex, replacement) applied to ONE occurrence on ONE line
OPS = [
    (r" == ", " != "), (r" != ", " == "),
    (r" <= ", " < "), (r" >= ", " > "), (r" < ", " <= "), (r" > ", " >= "),
    (r" && ", " || "), (r" \|\| ", " && "),
    (r" \+ ", " - "), (r" - ", " + "), (r" \* ", " / "), (r" % ", " / "),
    (r" << ", " >> "), (r" >> ", " << "), (r" & ", " | "), (r" \| ", " & "),
    (r"\btrue\b", "false"), (r"\bfalse\b", "true"),
    (r"\b0\b", "1"), (r"\b1\b", "0"), (r"\b1\b", "2"), (r"\b64\b", "63"), (r"\b63\b", "64"),
    (r"if !", "if "), (r"\.is_some\(\)", ".is_none()"), (r"\.is_none\(\)", ".is_some()"),
    (r"\.min\(", ".max("), (r"\.max\(", ".min("),
    (r"saturating_add", "wrapping_add"), (r"wrapping_add", "saturating_add"),
    (r"wrapping_sub", "wrapping_add"), (r"wrapping_mul", "wrapping_add"),
    (r"wrapping_shl", "wrapping_shr"), (r"wrapping_shr", "wrapping_shl"),
    (r"wrapping_div", "wrapping_rem"), (r"wrapping_rem", "wrapping_div"),
    (r"\.rev\(\)", ""), (r"\.first\(\)", ".last()"), (r"\.last\(\)", ".first()"),
    (r"\.any\(", ".all("), (r"\.all\(", ".any("),
    (r"\.position\(", ".rposition("), (r"\.find\(", ".rfind("),
    (r"\bcontinue;", "break;"), (r"\bbreak;", "continue;"),
    (r"Some\(", "None.or(Some(0).and(None)).or(Some("),  # placeholder never used (kept out by DELETE below)
]
OPS = OPS[:-1]

# second batch (MUT_BATCH=2): off-by-one shapes, range ends, reversed comparisons, negated conditions
OPS2 = [
    (r" \+ 1\b", ""), (r" - 1\b", ""), (r"\.\.=", ".."), (r"(?<![.])\.\.(?![.=])", "..="),
    (r" < ", " > "), (r" > ", " < "), (r" <= ", " >= "), (r" >= ", " <= "),
    (r"\.len\(\)", ".len().saturating_sub(1)"), (r"\.is_empty\(\)", ".len() == 1"),
    (r"\bif (?!let\b)([^{]+?) \{", r"if !(\1) {"), (r"\bwhile (?!let\b)([^{]+?) \{", r"while !(\1) {"),
    (r"\.unwrap_or\(([^)]+)\)", r".unwrap_or_default()"), (r"\.cloned\(\)", ".cloned().take(1)"),
    (r"\.skip\(1\)", ""), (r"\.take\(([^)]+)\)", ""), (r"\.filter\(", ".skip(1).filter("),
    (r"\.push\(", ".insert(0, "), (r"\.insert\(0, ", ".push("), (r"\.extend\(", ".extend(std::iter::empty().chain("),
    (r"Ok\(None\)", "Ok(Some(Default::default()))"), (r"\bi64\b", "i32"), (r"\busize\b", "u8"),
]
if os.environ.get("MUT_BATCH") == "2":
    OPS = OPS2

DELETE = re.compile(r"^\s+(self|ctx|row|row_result|cache|out|vars|data|block|signals|stack|result)[A-Za-z0-9_\.]*\.[a-z_]+\(.*\);\s*$")


def code_lines(text):
    """line numbers (0-based) that are code: not in a #[cfg(test)] module, not comments, not attributes, not
    message/Display code"""
    lines = text.split("\n")
    ok = []
    in_test = False
    depth_at = None
    depth = 0
    skip_fmt = 0
    for i, l in enumerate(lines):
        s = l.strip()
        if s.startswith("#[cfg(test)]"):
            in_test = True
            depth_at = None
        if in_test:
            if depth_at is None and "{" in l and ("mod " in l):
                depth_at = depth
            depth += l.count("{") - l.count("}")
            if depth_at is not None and depth <= depth_at:
                in_test = False
            continue
        depth += l.count("{") - l.count("}")
        if s.startswith("//") or s.startswith("#[") or s.startswith("///") or s.startswith("//!"):
            continue
        if "impl" in l and ("Display" in l or "Debug" in l or "Binary" in l):
            skip_fmt = 1
        if skip_fmt:
            # skip to the end of that impl block (crudely: until a line that is just `}` at column 0)
            if l.startswith("}"):
                skip_fmt = 0
            continue
        if "write!(" in l or "format!(" in l or "panic!(" in l or "unreachable!(" in l or "expect(" in l or "#[error" in l or "debug_assert" in l:
            continue
        ok.append(i)
    return lines, ok


def all_mutants(repo):
    muts = []
    for f in FILES:
        p = os.path.join(repo, f)
        if not os.path.exists(p):
            continue
        text = open(p).read()
        lines, ok = code_lines(text)
        for i in ok:
            l = lines[i]
            code = l.split("//")[0]
            for (rx, rep) in OPS:
                for m in re.finditer(rx, code):
                    # do not touch string literals
                    if code[:m.start()].count('"') % 2 == 1:
                        continue
                    new = code[:m.start()] + rep + code[m.end():] + l[len(code):]
                    if new != l:
                        muts.append((f, i, l, new, rx))
            if os.environ.get("MUT_BATCH") != "2" and DELETE.match(code) and "return" not in code:
                muts.append((f, i, l, "", "delete-statement"))
    # deterministic order, interleaving files
    muts.sort(key=lambda m: hashlib.md5(f"{m[0]}:{m[1]}:{m[4]}:{m[3]}".encode()).hexdigest())
    return muts


def sh(cmd, cwd, timeout):
    try:
        r = subprocess.run(cmd, shell=True, cwd=cwd, capture_output=True, text=True, timeout=timeout)
        return r.returncode, r.stdout + r.stderr
    except subprocess.TimeoutExpired:
        return 124, "timeout"


def main():
    wid, nw = int(sys.argv[1]), int(sys.argv[2])
    limit = int(sys.argv[3]) if len(sys.argv) > 3 else 10 ** 9
    W = f"/tmp/mut/w{wid}"
    repo, verif = f"{W}/repo", f"{W}/verif"
    os.makedirs(W, exist_ok=True)
    if not os.path.isdir(repo):
        sh(f"git -C /repo worktree add -q --detach {repo} HEAD", "/", 60)
    sh("git checkout -q -- . && git clean -fdq", repo, 60)
    sh(f"rm -rf {verif} && mkdir -p {verif} && rsync -a --exclude harness/target --exclude lean/.lake --exclude .git --exclude replays /verif/ {verif}/", "/", 300)
    sh(f"sed -i 's#path = \"/repo\"#path = \"{repo}\"#' {verif}/harness/Cargo.toml", "/", 10)
    sh(f"sed -i 's#/repo/Cargo.lock#{repo}/Cargo.lock#; s#/verif/lean/Dtr/Generated#{verif}/lean/Dtr/Generated#' {verif}/tools/gen_nd.py", "/", 10)
    env = f"export CARGO_NET_OFFLINE=true CARGO_TARGET_DIR={W}/target; "
    venv = f"export CARGO_NET_OFFLINE=true VERIF_CORPUS={verif}/corpus; "
    rc, out = sh(venv + "python3 tools/gen_nd.py && (cd lean && lake build Dtr dtr_model >/dev/null 2>&1); (cd harness && cargo build --offline >/dev/null 2>&1)", verif, 1800)
    props = [c["property_id"] for c in json.load(open(f"{verif}/MANIFEST.json"))["checks"]]
    # the broad ones first: most mutants die early
    order = ["C01", "C06", "C05", "C02", "C08", "C11", "C12", "C16", "C03", "C04", "C07", "C09", "C10", "C13", "C14", "C15", "C17", "C18", "C19", "C20"]
    props = [p for p in order if p in props] + [p for p in props if p not in order]
    muts = all_mutants(repo)
    res = open(f"/tmp/mut/results{os.environ.get('MUT_BATCH', '')}.{wid}.tsv", "a")
    done = 0
    for k, (f, i, old, new, op) in enumerate(muts):
        if k % nw != wid % nw:
            continue
        if done >= limit:
            break
        done += 1
        path = os.path.join(repo, f)
        lines = open(path).read().split("\n")
        assert lines[i] == old
        lines[i] = new
        open(path, "w").write("\n".join(lines))
        outcome = None
        rc, out = sh(env + "cargo build --offline --features verif-hooks 2>&1 | tail -3", repo, 600)
        if "error" in out or rc != 0:
            outcome = "nocompile"
        else:
            rc, out = sh(env + "timeout 300 cargo test --offline 2>&1 | grep -E '^test result|FAILED|panicked|timed out' | head -5", repo, 400)
            if rc == 124 or "FAILED" in out or "failed" in out.replace("0 failed", "") or out.count("test result: ok") < 3:
                outcome = "killed-by-tests"
            else:
                for p in props:
                    rc, out = sh(venv + f"timeout 600 ./check {p} quick 2>&1", verif, 700)
                    if rc != 0 or "VIOLATION" in out:
                        kind = "" if "VIOLATION" in out else f"(rc={rc})"
                        outcome = f"killed-by-check:{p}{kind}"
                        break
                if outcome is None:
                    outcome = "SURVIVED"
        sh("git checkout -q -- .", repo, 60)
        res.write(f"{k}\t{f}:{i+1}\t{op}\t{outcome}\t{old.strip()[:110]}\t=>\t{new.strip()[:110]}\n")
        res.flush()
    res.write(f"WORKER {wid} DONE {done}\n")
    res.close()


if __name__ == "__main__":
    main()
