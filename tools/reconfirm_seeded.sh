#!/bin/bash
# Re-confirms every seeded change under /verif/seeded against the CURRENT /repo HEAD in a scratch worktree:
# patch applies, demo passes clean, demo fails patched, suite green patched, hooks build.  Writes /tmp/seedeval/reconfirm.tsv
S=/tmp/seedeval
[ -d $S/repo ] || git -C /repo worktree add -q --detach $S/repo HEAD
cd $S/repo && git checkout -q --detach $(git -C /repo rev-parse HEAD) && git reset -q --hard HEAD && git clean -fdq
export CARGO_NET_OFFLINE=true CARGO_TARGET_DIR=/tmp/wt/target-shared
out=$S/reconfirm.tsv; : > $out
for d in /verif/seeded/C*/; do
  id=$(basename $d)
  git reset -q --hard HEAD; git clean -fdq
  cp $d/demo.rs tests/demo_x.rs
  cargo test --offline --test demo_x > $S/l1 2>&1; c=$?
  if git apply $d/patch.diff 2>/dev/null; then a=yes; else a=no; fi
  cargo test --offline --test demo_x > $S/l2 2>&1; p=$?
  rm -f tests/demo_x.rs
  cargo test --offline --workspace --no-fail-fast > $S/l3 2>&1; s=$?
  echo -e "$id\tapplies=$a\tdemo_clean_rc=$c\tdemo_patched_rc=$p\tsuite_rc=$s" >> $out
done
git reset -q --hard HEAD; git clean -fdq
echo DONE >> $out
