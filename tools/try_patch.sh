#!/bin/bash
# usage: try_patch.sh <patch.diff> <prop> [<prop>...]  — apply to /repo, run the quick checks, always undo
patch="$1"; shift
cd /repo || exit 2
if ! git diff --quiet; then echo "/repo is dirty"; exit 2; fi
trap 'git -C /repo checkout -- . ' EXIT
git apply "$patch" || { echo "patch does not apply"; exit 2; }
for p in "$@"; do
  out=$(cd /verif && timeout 900 ./check "$p" quick 2>&1); rc=$?
  echo "== $p rc=$rc"; echo "$out" | grep -E "VIOLATION|KNOWN|held|PROBLEM|\[oracle\]|\[model\]|failed" | head -6
done
