#!/usr/bin/env python3
"""Translates the finite tables of the crate's source into Lean: /verif/lean/Dtr/Generated/Tables.lean.

What is read from /repo's working tree on every run:
  * src/lexer/token.rs        the `#[token("…")] Variant` pairs of `enum TokenKind`  (fixed spellings)
  * src/parser/expr.rs        the `TokenKind::X => BinOp::Y` arms of `From<TokenKind> for BinOp`
  * src/parser/binoptree.rs   the `Self::Y => n` arms of `BinOp::precedence`
  * src/expr.rs               the entries of `FUNC_TABLE` (name, number_of_args)

The translation is *best effort*: each table is emitted as `some […]` only when the source has the
shape the translator understands and the table is complete and consistent (every variant once, every
operator token mapped, …); otherwise it is `none` and the Lean obligations about it hold vacuously —
the hook-based exhaustive table comparison of the harness then is the only tie for that table, as it
was before.  A refactoring that moves these tables into another shape therefore raises no alarm.
Tables are keyed by *spellings*, never by variant names, so renaming a variant changes nothing.
Rewrites the file only when its content changes."""
import os, re, sys

ROOT = os.path.dirname(os.path.dirname(os.path.abspath(__file__)))


def repo_dir():
    """the crate the harness is built against: the path dependency of harness/Cargo.toml (so that a scratch copy
    of /verif pointed at a scratch worktree translates *that* tree)"""
    if os.environ.get("VERIF_REPO"):
        return os.environ["VERIF_REPO"]
    try:
        m = re.search(r'digital_test_runner\s*=\s*\{\s*path\s*=\s*"([^"]+)"', open(os.path.join(ROOT, "harness", "Cargo.toml")).read())
        return m.group(1) if m else "/repo"
    except OSError:
        return "/repo"


REPO = repo_dir()
OUT = os.path.join(os.environ.get("VERIF_GEN_DIR", os.path.join(ROOT, "lean", "Dtr", "Generated")), "Tables.lean")


def read(rel):
    try:
        return open(os.path.join(REPO, rel), encoding="utf-8").read()
    except OSError:
        return None


def strip_comments(s):
    s = re.sub(r"/\*.*?\*/", "", s, flags=re.S)
    return re.sub(r"//[^\n]*", "", s)


def rust_str(lit):
    """value of a plain Rust string literal body (only the escapes the token table can contain)"""
    out, i = "", 0
    while i < len(lit):
        c = lit[i]
        if c == "\\":
            n = lit[i + 1]
            m = {"n": "\n", "t": "\t", "r": "\r", "\\": "\\", '"': '"', "0": "\0"}
            if n not in m:
                raise ValueError("escape")
            out += m[n]
            i += 2
        else:
            out += c
            i += 1
    return out


def enum_body(src, name):
    m = re.search(r"enum\s+" + name + r"\s*\{", src)
    if not m:
        return None
    depth, i = 1, m.end()
    while i < len(src) and depth:
        depth += {"{": 1, "}": -1}.get(src[i], 0)
        i += 1
    return src[m.end():i - 1]


def tokens():
    src = read("src/lexer/token.rs")
    if src is None:
        return None
    body = enum_body(strip_comments(src), "TokenKind")
    if body is None:
        return None
    pairs = re.findall(r'#\[token\(\s*"((?:[^"\\]|\\.)*)"\s*\)\]\s*([A-Za-z_][A-Za-z0-9_]*)', body)
    # every #[token …] attribute must have been understood
    if len(pairs) != len(re.findall(r"#\[token\b", body)) or not pairs:
        return None
    try:
        tab = [(v, rust_str(s)) for s, v in pairs]
    except (ValueError, IndexError):
        return None
    if len({v for v, _ in tab}) != len(tab) or len({s for _, s in tab}) != len(tab):
        return None
    return tab


def fn_body(src, header_re):
    m = re.search(header_re, src)
    if not m:
        return None
    i = src.find("{", m.end())
    if i < 0:
        return None
    depth, j = 1, i + 1
    while j < len(src) and depth:
        depth += {"{": 1, "}": -1}.get(src[j], 0)
        j += 1
    return src[i + 1:j - 1]


def binop_variants():
    src = read("src/expr.rs")
    if src is None:
        return None
    body = enum_body(strip_comments(src), "BinOp")
    if body is None:
        return None
    vs = [v.strip() for v in body.split(",") if v.strip()]
    if not vs or not all(re.fullmatch(r"[A-Za-z_][A-Za-z0-9_]*", v) for v in vs):
        return None
    return vs


def precedence(tok):
    """spelling -> precedence number, for every binary operator"""
    ops = binop_variants()
    pe = read("src/parser/expr.rs")
    bt = read("src/parser/binoptree.rs")
    if tok is None or ops is None or pe is None or bt is None:
        return None
    pe, bt = strip_comments(pe), strip_comments(bt)
    arms = re.findall(r"TokenKind::([A-Za-z0-9_]+)\s*=>\s*BinOp::([A-Za-z0-9_]+)\s*,", pe)
    t2b = dict(arms)
    if len(t2b) != len(arms) or sorted(t2b.values()) != sorted(ops):
        return None
    body = fn_body(bt, r"fn\s+precedence\s*\(")
    if body is None:
        return None
    parms = re.findall(r"((?:Self|BinOp)::[A-Za-z0-9_]+(?:\s*\|\s*(?:Self|BinOp)::[A-Za-z0-9_]+)*)\s*=>\s*([0-9]+)\s*,?", body)
    prec = {}
    for lhs, n in parms:
        for v in re.findall(r"::([A-Za-z0-9_]+)", lhs):
            if v in prec:
                return None
            prec[v] = int(n)
    # the whole match must have been understood: nothing but the arms inside `match self { … }`
    rest = re.sub(r"((?:Self|BinOp)::[A-Za-z0-9_]+(?:\s*\|\s*(?:Self|BinOp)::[A-Za-z0-9_]+)*)\s*=>\s*([0-9]+)\s*,?", "", body)
    if re.sub(r"\s+", "", rest) != "matchself{}" or sorted(prec) != sorted(ops):
        return None
    spell = dict(tok)
    out = []
    for t, b in arms:
        if t not in spell:
            return None
        out.append((spell[t], prec[b]))
    return out


def unary(tok):
    """spellings of the tokens `From<TokenKind> for UnaryOp` maps to a unary operator"""
    pe = read("src/parser/expr.rs")
    if tok is None or pe is None:
        return None
    body = fn_body(strip_comments(pe), r"impl\s+From<TokenKind>\s+for\s+UnaryOp")
    if body is None:
        return None
    arms = re.findall(r"TokenKind::([A-Za-z0-9_]+)\s*=>\s*UnaryOp::([A-Za-z0-9_]+)\s*,", body)
    spell = dict(tok)
    if not arms or len({t for t, _ in arms}) != len(arms) or any(t not in spell for t, _ in arms):
        return None
    # nothing but these arms and the catch-all may stand in the match
    rest = re.sub(r"TokenKind::([A-Za-z0-9_]+)\s*=>\s*UnaryOp::([A-Za-z0-9_]+)\s*,", "", body)
    if re.sub(r"\s+", "", rest) not in ("fnfrom(value:TokenKind)->Self{matchvalue{_=>unreachable!(),}}",):
        return None
    return [spell[t] for t, _ in arms]


def funcs():
    src = read("src/expr.rs")
    if src is None:
        return None
    src = strip_comments(src)
    m = re.search(r"FUNC_TABLE\s*:\s*FuncTable\s*=\s*FuncTable\s*\{\s*entries\s*:\s*&\[", src)
    if not m:
        return None
    depth, i = 1, m.end()
    while i < len(src) and depth:
        depth += {"[": 1, "]": -1}.get(src[i], 0)
        i += 1
    body = src[m.end():i - 1]
    ents = re.findall(r'FuncTableEntry\s*\{\s*name\s*:\s*"([A-Za-z0-9_]*)"\s*,\s*number_of_args\s*:\s*([0-9]+)\s*,\s*f\s*:\s*[A-Za-z0-9_:]+\s*,?\s*\}', body)
    if len(ents) != len(re.findall(r"FuncTableEntry\s*\{", body)) or not ents:
        return None
    return [(n, int(a)) for n, a in ents]


def lean_str(s):
    return '"' + "".join({"\n": "\\n", "\t": "\\t", "\r": "\\r", "\\": "\\\\", '"': '\\"'}.get(c, c) for c in s) + '"'


def lean_opt(tab, f):
    if tab is None:
        return "none"
    return "some [" + ", ".join(f(x) for x in tab) + "]"


def main():
    tok = tokens()
    prec = precedence(tok)
    fun = funcs()
    una = unary(tok)
    lines = [
        "/-! GENERATED by tools/gen_tables.py from /repo's working tree (src/lexer/token.rs, src/parser/expr.rs,",
        "src/parser/binoptree.rs, src/expr.rs) — do not edit.  `none` = the source no longer has the shape the",
        "translator understands; the obligations in `Dtr/Proofs/SrcTables.lean` then hold vacuously. -/",
        "namespace Dtr.Src", "",
        "/-- the fixed spellings of `TokenKind`: every `#[token(\"…\")]` attribute, in source order -/",
        "def tokenSpellings : Option (List String) := " + lean_opt(tok, lambda x: lean_str(x[1])), "",
        "/-- binary operators: spelling of the token and the number `BinOp::precedence` gives the operator it becomes -/",
        "def binopPrecedence : Option (List (String × Nat)) := " + lean_opt(prec, lambda x: "(%s, %d)" % (lean_str(x[0]), x[1])), "",
        "/-- the spellings of the tokens that are unary operators (`From<TokenKind> for UnaryOp`) -/",
        "def unaryOperators : Option (List String) := " + lean_opt(una, lambda x: lean_str(x)), "",
        "/-- `FUNC_TABLE`: name and number of arguments, in table order -/",
        "def funcTable : Option (List (String × Nat)) := " + lean_opt(fun, lambda x: "(%s, %d)" % (lean_str(x[0]), x[1])), "",
        "end Dtr.Src", ""]
    text = "\n".join(lines)
    os.makedirs(os.path.dirname(OUT), exist_ok=True)
    if not os.path.exists(OUT) or open(OUT).read() != text:
        open(OUT, "w").write(text)
    print("gen_tables: tokens=%s precedence=%s unary=%s functions=%s" % tuple("translated" if t is not None else "NOT-RECOGNISED" for t in (tok, prec, una, fun)))
    return 0


sys.exit(main())
