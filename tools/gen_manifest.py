#!/usr/bin/env python3
"""(Re)generates /verif/MANIFEST.json from the table below."""
import json, os
ROOT = os.path.dirname(os.path.dirname(os.path.abspath(__file__)))
props = {json.loads(l)["id"]: json.loads(l) for l in open(os.path.join(ROOT, "properties.jsonl"))}

# per property: (design section, technique, claim text, note) — kept current by hand as theorems land
CLAIMS = json.load(open(os.path.join(ROOT, "tools", "claims.json")))

checks, na = [], []
for pid in sorted(props):
    c = CLAIMS.get(pid)
    if not c or not c.get("claimed"):
        na.append({"property_id": pid, "reason": (c or {}).get("reason", "check not built yet")})
        continue
    checks.append({
        "property_id": pid,
        "quick_cmd": f"./check {pid} quick",
        "thorough_cmd": f"./check {pid} thorough",
        "evidence_file": f"/verif/evidence/{pid}.json",
        "replay_cmd_template": f"./check {pid} --replay {{path}}",
        "engine": "lean-proof+correspondence",
        "level_claimed": {"category": c["category"], "text": c["text"], "design_ref": c.get("design_ref", "DESIGN.md §5 " + pid)},
        "level_note": c["note"],
        "technique": c["technique"],
    })
m = {
    "version": 1,
    "setup_cmd": "python3 tools/gen_nd.py && python3 tools/gen_tables.py && (cd lean && lake build Dtr dtr_model) && (cd harness && CARGO_NET_OFFLINE=true cargo build --offline)",
    "hooks": {
        "guard": "cargo feature `verif-hooks` (off by default)",
        "enable": "the harness crate depends on /repo by path with features=[\"verif-hooks\"]; cargo rebuilds it from the working tree on every check",
        "baseline_off_cmd": "cd /repo && CARGO_NET_OFFLINE=true cargo test --workspace --no-fail-fast --offline",
        "source_commits": ["4c802ce", "a7b3f4e", "939cc74"],
        "add_only": True,
    },
    "engines": [
        {"name": "lean-proof+correspondence", "path": "/verif/lean, /verif/harness, /verif/check",
         "serves_properties": [c["property_id"] for c in checks],
         "kind_free_text": "Lean 4 theorems about a hand-written executable model (lean/Dtr/Model, lean/Dtr/Props) + a Rust harness that runs the real crate and the compiled model on the same cases and diffs the property-relevant observables, plus property oracles on the implementation's trace"},
    ],
    "checks": checks,
    "not_applicable": na,
    "notes": "see DESIGN.md; known_findings.json lists open findings (KNOWN-FINDING lines) and repaired defects (fix: commits in /repo)",
}
json.dump(m, open(os.path.join(ROOT, "MANIFEST.json"), "w"), indent=1)
print(len(checks), "checks;", len(na), "not claimed")
