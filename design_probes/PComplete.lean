import Probe.PTotal
namespace PE

/-- expression syntax with explicit (possibly redundant) parentheses -/
inductive PX | num (n : Nat) | var (s : String) | bin (o : BinOp) (l r : PX) | un (u : UnOp) (e : PX) | paren (e : PX)

def utok : UnOp → Tok | .neg => .op .sub | .lnot => .lnot | .bnot => .bnot

def PX.erase : PX → Expr
  | .num n => .num n | .var s => .var s | .bin o l r => .bin o l.erase r.erase
  | .un u e => .un u e.erase | .paren e => e.erase

def PX.toks : PX → List Tok
  | .num n => [.num n] | .var s => [.ident s] | .bin o l r => l.toks ++ .op o :: r.toks
  | .un u e => utok u :: e.toks | .paren e => .lp :: (e.toks ++ [.rp])

def PX.size : PX → Nat
  | .num _ | .var _ => 1 | .bin _ l r => l.size + r.size + 1 | .un _ e => e.size + 1 | .paren e => e.size + 1

def PX.isFactor : PX → Prop | .bin .. => False | _ => True
def PX.rootLe (p : PX) (k : Nat) : Prop := match p with | .bin o _ _ => o.prec ≤ k | _ => True
def PX.rootLt (p : PX) (k : Nat) : Prop := match p with | .bin o _ _ => o.prec < k | _ => True

/-- at least the parentheses that the precedence table demands -/
def PX.WP : PX → Prop
  | .num _ | .var _ => True
  | .bin o l r => l.rootLe o.prec ∧ r.rootLt o.prec ∧ l.WP ∧ r.WP
  | .un _ e => e.isFactor ∧ e.WP
  | .paren e => e.WP

/-- first factor and the (operator, factor) pairs of the top-level chain -/
def PX.first : PX → PX | .bin _ l _ => l.first | p => p
def PX.pairs : PX → List (BinOp × PX)
  | .bin o l r => l.pairs ++ (o, r.first) :: r.pairs
  | _ => []

def pairToks (ps : List (BinOp × PX)) : List Tok := ps.flatMap (fun q => .op q.1 :: q.2.toks)

theorem PX.toks_eq (p : PX) : p.toks = p.first.toks ++ pairToks p.pairs := by
  induction p with
  | bin o l r ihl ihr => simp [PX.toks, PX.first, PX.pairs, pairToks, ihl, ihr] at *
  | _ => simp [PX.first, PX.pairs, pairToks]

/-- the chain tree of a parenthesised expression -/
def PX.tree : PX → T | .bin o l r => .node o l.tree r.tree | p => .atom p.erase

def T.first : T → Expr | .atom a => a | .node _ l _ => l.first
def T.seq : T → List (BinOp × Expr) | .atom _ => [] | .node o l r => l.seq ++ (o, r.first) :: r.seq
def T.addAll (t : T) (ps : List (BinOp × Expr)) : T := ps.foldl (fun t p => t.add p.1 p.2) t
def T.rootLe (t : T) (k : Nat) : Prop := match t with | .atom _ => True | .node o _ _ => o.prec ≤ k
def T.rootLt (t : T) (k : Nat) : Prop := match t with | .atom _ => True | .node o _ _ => o.prec < k
def T.OK : T → Prop | .atom _ => True | .node o l r => l.rootLe o.prec ∧ r.rootLt o.prec ∧ l.OK ∧ r.OK

theorem T.seq_le {t : T} (h : t.OK) {p} (hp : t.rootLe p) : ∀ q ∈ t.seq, q.1.prec ≤ p := by
  induction t generalizing p with
  | atom a => simp [T.seq]
  | node o l r ihl ihr =>
    obtain ⟨hl, hr, okl, okr⟩ := h
    simp only [T.rootLe] at hp
    intro q hq
    simp only [T.seq, List.mem_append, List.mem_cons] at hq
    rcases hq with hq | hq | hq
    · have := ihl okl (p := o.prec) hl q hq; omega
    · subst hq; simpa using hp
    · have : r.rootLe o.prec := by cases r <;> simp_all [T.rootLe, T.rootLt]; omega
      have := ihr okr this q hq; omega

theorem T.seq_lt {t : T} (h : t.OK) {p} (hp : t.rootLt p) : ∀ q ∈ t.seq, q.1.prec < p := by
  cases t with
  | atom a => simp [T.seq]
  | node o l r =>
    intro q hq
    have := T.seq_le h (p := o.prec) (by simp [T.rootLe]) q hq
    simp only [T.rootLt] at hp; omega

theorem T.addAll_node (o : BinOp) (l x : T) (ps : List (BinOp × Expr)) (h : ∀ q ∈ ps, q.1.prec < o.prec) :
    (T.node o l x).addAll ps = .node o l (x.addAll ps) := by
  induction ps generalizing x with
  | nil => rfl
  | cons p ps ih =>
    have hp : p.1.prec < o.prec := h p (by simp)
    simp only [T.addAll, List.foldl_cons, T.add, hp, if_true]
    exact ih _ (fun q hq => h q (by simp [hq]))

theorem T.build_complete (t : T) (h : t.OK) : (T.atom t.first).addAll t.seq = t := by
  induction t with
  | atom a => rfl
  | node o l r ihl ihr =>
    obtain ⟨hl, hr, okl, okr⟩ := h
    simp only [T.seq, T.first, T.addAll, List.foldl_append, List.foldl_cons]
    have h1 := ihl okl
    simp only [T.addAll] at h1
    rw [h1]
    have h2 : l.add o r.first = .node o l (.atom r.first) := by
      cases l with
      | atom b => rfl
      | node o' l' r' => simp only [T.rootLe] at hl; simp [T.add]; omega
    rw [h2]
    have := T.addAll_node o l (.atom r.first) r.seq (T.seq_lt okr hr)
    simp only [T.addAll] at this
    rw [this]
    have h3 := ihr okr
    simp only [T.addAll] at h3
    rw [h3]

theorem PX.tree_toExpr (p : PX) : p.tree.toExpr = p.erase := by
  induction p <;> simp_all [PX.tree, T.toExpr, PX.erase]

theorem PX.tree_ok (p : PX) (h : p.WP) : p.tree.OK := by
  induction p with
  | bin o l r ihl ihr =>
    obtain ⟨hl, hr, wl, wr⟩ := h
    refine ⟨?_, ?_, ihl wl, ihr wr⟩
    · cases l <;> simp_all [PX.tree, T.rootLe, PX.rootLe]
    · cases r <;> simp_all [PX.tree, T.rootLt, PX.rootLt]
  | _ => simp [PX.tree, T.OK]

theorem PX.tree_first (p : PX) : p.tree.first = p.first.erase := by
  induction p <;> simp_all [PX.tree, T.first, PX.first]

theorem PX.tree_seq (p : PX) : p.tree.seq = p.pairs.map (fun q => (q.1, q.2.erase)) := by
  induction p <;> simp_all [PX.tree, T.seq, PX.pairs, PX.tree_first]

end PE
