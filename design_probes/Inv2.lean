import Probe.Inv
namespace IV

theorem Frame.set_has_self (f : Frame) (x v) : (f.set x v).has x := by
  induction f with
  | nil => exact ⟨v, by simp [Frame.set]⟩
  | cons p f ih =>
    obtain ⟨y, w⟩ := p
    simp only [Frame.set]
    split
    · next h => subst h; exact ⟨v, by simp⟩
    · obtain ⟨v', hv⟩ := ih; exact ⟨v', by simp [hv]⟩

theorem Frame.set_has_mono (f : Frame) (x v y) (h : f.has y) : (f.set x v).has y := by
  induction f with
  | nil => obtain ⟨w, hw⟩ := h; cases hw
  | cons p f ih =>
    obtain ⟨z, w⟩ := p
    obtain ⟨w', hw⟩ := h
    simp only [Frame.set]
    split
    · next hz =>
      subst hz
      simp at hw
      rcases hw with ⟨rfl, rfl⟩ | hw
      · exact ⟨v, by simp⟩
      · exact ⟨w', by simp [hw]⟩
    · simp at hw
      rcases hw with ⟨rfl, rfl⟩ | hw
      · exact ⟨w', by simp⟩
      · obtain ⟨v', hv⟩ := ih ⟨w', hw⟩; exact ⟨v', by simp [hv]⟩

theorem Frame.get_of_has (f : Frame) (x) (h : f.has x) : f.get x ≠ none := by
  induction f with
  | nil => obtain ⟨w, hw⟩ := h; cases hw
  | cons p f ih =>
    obtain ⟨z, w⟩ := p
    obtain ⟨w', hw⟩ := h
    simp only [Frame.get]
    split
    · simp
    · next hz =>
      simp at hw
      rcases hw with ⟨rfl, rfl⟩ | hw
      · exact absurd rfl hz
      · exact ih ⟨w', hw⟩

/-- same height, every frame keeps its keys -/
inductive Grow : List Frame → List Frame → Prop
  | nil : Grow [] []
  | cons {f f' fs fs'} : (∀ x, f.has x → f'.has x) → Grow fs fs' → Grow (f :: fs) (f' :: fs')

theorem Grow.refl : ∀ fs, Grow fs fs
  | [] => .nil
  | _ :: fs => .cons (fun _ h => h) (Grow.refl fs)

theorem Grow.length {a b} (h : Grow a b) : a.length = b.length := by
  induction h <;> simp_all

theorem Grow.tail {a b} (h : Grow a b) : Grow a.tail b.tail := by
  cases h with
  | nil => exact .nil
  | cons _ h => exact h

theorem Grow.head_has {f fs b x} (h : Grow (f :: fs) b) (hx : f.has x) : ∃ f' fs', b = f' :: fs' ∧ f'.has x := by
  cases h with
  | cons hf _ => exact ⟨_, _, rfl, hf x hx⟩

theorem drop_succ_eq_tail_drop (l : List Frame) (k : Nat) : l.drop (k+1) = (l.drop k).tail := by
  induction l generalizing k with
  | nil => simp
  | cons a l ih =>
    cases k with
    | zero => simp
    | succ k => simpa using ih k

variable {E R : Type}
variable (eval : E → Ctx → Except String (Val × Nat)) (evalRow : List E → Nat → Ctx → Except String (R × Nat))

def Post (it : It E) (c : Ctx) : StepRes E R → Prop
  | .yield _ it' c' | .cont it' c' =>
      VarsOK it' c'.frames ∧ depth it' < c'.frames.length ∧ Grow (c.frames.drop (depth it)) (c'.frames.drop (depth it'))
  | .done it' c' =>
      depth it' = 0 ∧ VarsOK it' c'.frames ∧ depth it' < c'.frames.length ∧ Grow (c.frames.drop (depth it)) (c'.frames.drop (depth it'))
  | .err _ => True
  | .panic _ => False

theorem set_frames (c : Ctx) (x v) (h : 0 < c.frames.length) :
    ∃ f fs, c.frames = f :: fs ∧ (c.set x v).frames = f.set x v :: fs := by
  cases hc : c.frames with
  | nil => simp [hc] at h
  | cons f fs => exact ⟨f, fs, rfl, by simp [Ctx.set, hc]⟩

theorem step_inv : (it : It E) → (c : Ctx) → VarsOK it c.frames → depth it < c.frames.length →
    Post it c (step eval evalRow it c)
  | .mk rest .iterate, c, _, hl => by
    simp only [depth] at hl
    cases rest with
    | nil => simp [step, Post, depth, VarsOK, hl, Grow.refl]
    | cons s rest' =>
      cases s with
      | letS name e =>
        simp only [step]
        split
        · simp [Post]
        · next v a _ =>
          obtain ⟨f, fs, h1, h2⟩ := set_frames { c with aux := a } name v hl
          simp only [Post, depth, VarsOK, List.drop_zero, true_and]
          rw [h2]; simp only at h1; rw [h1]
          exact ⟨by simp, .cons (fun y hy => Frame.set_has_mono f name v y hy) (Grow.refl fs)⟩
      | row data line =>
        simp only [step]
        split <;> simp [Post, depth, VarsOK, hl, Grow.refl]
      | loop var max body =>
        simp only [step]
        split
        · simp [Post]
        · split <;> simp [Post, depth, VarsOK, hl, Grow.refl]
      | resetRandom => simp [step, Post, depth, VarsOK, hl, Grow.refl]
      | «while» cond body => simp [step, Post, depth, VarsOK, hl, Grow.refl]
  | .mk rest (.startLoop ls), c, _, hl => by
    simp only [depth] at hl
    simp only [step, Post, depth, VarsOK, List.drop_zero]
    have : (c.push.set ls.var 0).frames = (Frame.set [] ls.var 0) :: c.frames := by simp [Ctx.set, Ctx.push]
    rw [this]
    exact ⟨⟨_, _, rfl, Frame.set_has_self _ _ _⟩, by simp; omega, by simp [Grow.refl]⟩
  | .mk rest (.startInner ls), c, hv, hl => by
    simp only [depth] at hl
    simp only [step, Post, depth, VarsOK, List.drop_zero, true_and]
    exact ⟨hv, by omega, Grow.refl _⟩
  | .mk rest (.inner it ls), c, hv, hl => by
    obtain ⟨hv1, f, fs, hd, hf⟩ := hv
    simp only [depth] at hl
    have ih := step_inv it c hv1 (by omega)
    simp only [step]
    have key : ∀ (it' : It E) (c' : Ctx), Grow (c.frames.drop (depth it)) (c'.frames.drop (depth it')) →
        (∃ f' fs', c'.frames.drop (depth it') = f' :: fs' ∧ f'.has ls.var) ∧
        depth it' + 1 < c'.frames.length ∧
        Grow (c.frames.drop (depth it + 1)) (c'.frames.drop (depth it' + 1)) := by
      intro it' c' g
      rw [hd] at g
      refine ⟨g.head_has hf, ?_, ?_⟩
      · have := g.length
        have h2 : (c.frames.drop (depth it)).length = c.frames.length - depth it := by simp
        rw [hd] at h2
        simp at this h2
        have h3 : (c'.frames.drop (depth it')).length = c'.frames.length - depth it' := by simp
        omega
      · rw [drop_succ_eq_tail_drop, drop_succ_eq_tail_drop, hd]; exact g.tail
    cases hs : step eval evalRow it c with
    | yield r it' c' =>
      rw [hs] at ih; obtain ⟨a, b, g⟩ := ih
      obtain ⟨k1, k2, k3⟩ := key it' c' g
      exact ⟨⟨a, k1⟩, k2, k3⟩
    | cont it' c' =>
      rw [hs] at ih; obtain ⟨a, b, g⟩ := ih
      obtain ⟨k1, k2, k3⟩ := key it' c' g
      exact ⟨⟨a, k1⟩, k2, k3⟩
    | done it' c' =>
      rw [hs] at ih; obtain ⟨d0, a, b, g⟩ := ih
      obtain ⟨k1, k2, k3⟩ := key it' c' g
      simp only [Post, depth, VarsOK]
      rw [d0] at k1 k2 k3
      simp only [List.drop_zero] at k1
      exact ⟨k1, by omega, by simpa using k3⟩
    | err e => simp [Post]
    | panic m => rw [hs] at ih; exact ih.elim
  | .mk rest (.endInner ls), c, hv, hl => by
    obtain ⟨f, fs, hc, hf⟩ := hv
    simp only [depth] at hl
    simp only [step]
    have hg : c.get ls.var ≠ none := by
      simp only [Ctx.get, hc, getFrames]
      have := Frame.get_of_has f ls.var hf
      split <;> simp_all
    split
    · next h => exact absurd h hg
    · next prev _ =>
      split
      · obtain ⟨f0, fs0, h1, h2⟩ := set_frames c ls.var (prev + 1) (by omega)
        simp only [Post, depth, VarsOK]
        rw [h2]; rw [hc] at h1; cases h1
        exact ⟨⟨_, _, rfl, Frame.set_has_self _ _ _⟩, by simp; rw [hc] at hl; simpa using hl, by simp [hc, Grow.refl]⟩
      · simp only [Post, depth, VarsOK, Ctx.pop, hc, List.tail_cons, List.drop_zero, true_and]
        rw [hc] at hl
        exact ⟨by simp at hl; omega, by simp [Grow.refl]⟩
  | .mk rest (.startWhile ws), c, _, hl => by
    simp only [depth] at hl
    simp only [step]
    split
    · simp [Post]
    · split <;> simp [Post, depth, VarsOK, hl, Grow.refl]
  | .mk rest (.whileInner it ws), c, hv, hl => by
    simp only [VarsOK] at hv
    simp only [depth] at hl
    have ih := step_inv it c hv hl
    simp only [step]
    cases hs : step eval evalRow it c with
    | yield r it' c' => rw [hs] at ih; simpa [Post, depth, VarsOK] using ih
    | cont it' c' => rw [hs] at ih; simpa [Post, depth, VarsOK] using ih
    | done it' c' =>
      rw [hs] at ih; obtain ⟨d0, a, b, g⟩ := ih
      simp only [Post, depth, VarsOK, List.drop_zero, true_and]
      rw [d0] at g b
      exact ⟨b, by simpa using g⟩
    | err e => simp [Post]
    | panic m => rw [hs] at ih; exact ih.elim

end IV
