/-! Probe: the loop counter is always bound when `EndIterateInner` reads it (C10) -/
namespace IV

abbrev Val := Int64
abbrev Frame := List (String × Val)

def Frame.has (f : Frame) (x : String) : Prop := ∃ v, (x, v) ∈ f

/-- scope stack, innermost first; the last element is the global frame -/
structure Ctx where
  frames : List Frame
  aux : Nat          -- stands for rng / outputs: changed by eval, irrelevant here

def Frame.set : Frame → String → Val → Frame
  | [], x, v => [(x, v)]
  | (y, w) :: f, x, v => if y = x then (y, v) :: f else (y, w) :: Frame.set f x v

def Ctx.set (c : Ctx) (x : String) (v : Val) : Ctx :=
  match c.frames with
  | [] => { c with frames := [Frame.set [] x v] }
  | f :: fs => { c with frames := f.set x v :: fs }
def Ctx.push (c : Ctx) : Ctx := { c with frames := [] :: c.frames }
def Ctx.pop (c : Ctx) : Ctx := { c with frames := c.frames.tail }
def Frame.get : Frame → String → Option Val
  | [], _ => none
  | (y, w) :: f, x => if y = x then some w else Frame.get f x
def getFrames : List Frame → String → Option Val
  | [], _ => none
  | f :: fs, x => match f.get x with | some v => some v | none => getFrames fs x
def Ctx.get (c : Ctx) (x : String) : Option Val := getFrames c.frames x

inductive Stmt (E : Type) where
  | letS (name : String) (e : E)
  | row (data : List E) (line : Nat)
  | loop (var : String) (max : E) (body : List (Stmt E))
  | while (cond : E) (body : List (Stmt E))
  | resetRandom

structure LoopState (E : Type) where
  var : String
  max : Val
  stmts : List (Stmt E)
structure WhileState (E : Type) where
  cond : E
  stmts : List (Stmt E)

mutual
inductive It (E : Type) where
  | mk (rest : List (Stmt E)) (st : ItState E)
inductive ItState (E : Type) where
  | iterate
  | startLoop (ls : LoopState E)
  | startInner (ls : LoopState E)
  | inner (it : It E) (ls : LoopState E)
  | endInner (ls : LoopState E)
  | startWhile (ws : WhileState E)
  | whileInner (it : It E) (ws : WhileState E)
end

inductive StepRes (E R : Type) where
  | yield (r : R) (it : It E) (c : Ctx)
  | done (it : It E) (c : Ctx)
  | cont (it : It E) (c : Ctx)
  | err (e : String)
  | panic (msg : String)

variable {E R : Type}
-- evaluation may change only the auxiliary part of the context
variable (eval : E → Ctx → Except String (Val × Nat)) (evalRow : List E → Nat → Ctx → Except String (R × Nat))

def step : It E → Ctx → StepRes E R
  | .mk rest .iterate, c =>
    match rest with
    | [] => .done (.mk [] .iterate) c
    | s :: rest' =>
      match s with
      | .letS name e =>
        match eval e c with
        | .error er => .err er
        | .ok (v, a) => .cont (.mk rest' .iterate) ({ c with aux := a }.set name v)
      | .row data line =>
        match evalRow data line c with
        | .error er => .err er
        | .ok (r, a) => .yield r (.mk rest' .iterate) { c with aux := a }
      | .loop var max body =>
        match eval max c with
        | .error er => .err er
        | .ok (v, a) =>
          if 0 < v then .cont (.mk rest' (.startLoop ⟨var, v, body⟩)) { c with aux := a }
          else .cont (.mk rest' .iterate) { c with aux := a }
      | .resetRandom => .cont (.mk rest' .iterate) { c with aux := 0 }
      | .while cond body => .cont (.mk rest' (.startWhile ⟨cond, body⟩)) c
  | .mk rest (.startLoop ls), c =>
    .cont (.mk rest (.startInner ls)) (c.push.set ls.var 0)
  | .mk rest (.startInner ls), c =>
    .cont (.mk rest (.inner (.mk ls.stmts .iterate) ls)) c
  | .mk rest (.inner it ls), c =>
    match step it c with
    | .yield r it' c' => .yield r (.mk rest (.inner it' ls)) c'
    | .cont it' c' => .cont (.mk rest (.inner it' ls)) c'
    | .done _ c' => .cont (.mk rest (.endInner ls)) c'
    | .err e => .err e
    | .panic m => .panic m
  | .mk rest (.endInner ls), c =>
    match c.get ls.var with
    | none => .panic "loop variable not found"
    | some prev =>
      let v := prev + 1
      if v < ls.max then .cont (.mk rest (.startInner ls)) (c.set ls.var v)
      else .cont (.mk rest .iterate) c.pop
  | .mk rest (.startWhile ws), c =>
    match eval ws.cond c with
    | .error er => .err er
    | .ok (v, a) =>
      if v = 0 then .cont (.mk rest .iterate) { c with aux := a }
      else .cont (.mk rest (.whileInner (.mk ws.stmts .iterate) ws)) { c with aux := a }
  | .mk rest (.whileInner it ws), c =>
    match step it c with
    | .yield r it' c' => .yield r (.mk rest (.whileInner it' ws)) c'
    | .cont it' c' => .cont (.mk rest (.whileInner it' ws)) c'
    | .done _ c' => .cont (.mk rest (.startWhile ws)) c'
    | .err e => .err e
    | .panic m => .panic m

/-- number of frames an iterator state has pushed and not yet popped -/
def depth : It E → Nat
  | .mk _ .iterate | .mk _ (.startLoop _) | .mk _ (.startWhile _) => 0
  | .mk _ (.startInner _) | .mk _ (.endInner _) => 1
  | .mk _ (.inner it _) => depth it + 1
  | .mk _ (.whileInner it _) => depth it

/-- every active loop's counter is bound in the frame that loop pushed -/
def VarsOK : It E → List Frame → Prop
  | .mk _ .iterate, _ | .mk _ (.startLoop _), _ | .mk _ (.startWhile _), _ => True
  | .mk _ (.startInner ls), fs | .mk _ (.endInner ls), fs => ∃ f rest, fs = f :: rest ∧ f.has ls.var
  | .mk _ (.inner it ls), fs => VarsOK it fs ∧ ∃ f rest, fs.drop (depth it) = f :: rest ∧ f.has ls.var
  | .mk _ (.whileInner it _), fs => VarsOK it fs

end IV
