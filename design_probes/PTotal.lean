import Probe.PExpr
namespace PE

/-- the stream still ends in `eof` -/
def Good (ts : List Tok) : Prop := ∃ pre, ts = pre ++ [Tok.eof]

theorem Good.ne_nil {ts} (h : Good ts) : ts ≠ [] := by
  obtain ⟨pre, rfl⟩ := h; simp

theorem Good.tail {t ts} (h : Good (t :: ts)) (ht : t ≠ .eof) : Good ts := by
  obtain ⟨pre, hp⟩ := h
  cases pre with
  | nil => simp at hp; exact absurd hp.1 ht
  | cons p pre => simp at hp; exact ⟨pre, hp.2⟩

def Post (ts : List Tok) (strict : Bool) : Res (Expr × List Tok) → Prop
  | .ok (_, ts') => Good ts' ∧ (if strict then ts'.length < ts.length else ts'.length ≤ ts.length)
  | .err _ => True
  | .panic _ => False
  | .fuel => True

structure Tot (f : Nat) : Prop where
  expr : ∀ ts, Good ts → Post ts true (parseExpr f ts)
  chain : ∀ t ts, Good ts → Post ts false (chain f t ts)
  factor : ∀ ts, Good ts → Post ts true (parseFactor f ts)

theorem tot : ∀ f, Tot f := by
  intro f
  induction f with
  | zero => constructor <;> intros <;> simp [parseExpr, chain, parseFactor, Post]
  | succ f ih =>
    refine ⟨?_, ?_, ?_⟩
    · intro ts g
      simp only [parseExpr]
      have hf := ih.factor ts g
      split <;> simp_all [Post]
      next e ts' heq =>
        have hc := ih.chain (.atom e) ts' hf.1
        revert hc; cases chain f (.atom e) ts' <;> simp [Post]
        next a => intro g' hl; exact ⟨g', by omega⟩
    · intro t ts g
      simp only [chain]
      split
      · exact absurd rfl g.ne_nil
      · next o ts' =>
        have g' : Good ts' := g.tail (by simp)
        have hf := ih.factor ts' g'
        split <;> simp_all [Post]
        next e ts'' heq =>
          have hc := ih.chain (t.add o e) ts'' hf.1
          revert hc; cases chain f (t.add o e) ts'' <;> simp [Post]
          next a => intro g'' hl; exact ⟨g'', by omega⟩
      · simp [Post, g]
    · intro ts g
      simp only [parseFactor]
      split
      · exact absurd rfl g.ne_nil
      · next n ts' => simp [Post]; exact g.tail (by simp)
      · next s ts' =>
        have g' : Good ts' := g.tail (by simp)
        split
        · exact absurd rfl g'.ne_nil
        · simp [Post]
        · simp [Post, g']
      · next ts' =>
        have g' : Good ts' := g.tail (by simp)
        have he := ih.expr ts' g'
        split <;> simp_all [Post]
        next e ts'' heq => exact ⟨he.1.tail (by simp), by omega⟩
      · next t ts' _ _ _ =>
        split
        · next u hu =>
          have ht : t ≠ .eof := by intro h; subst h; simp [unTok] at hu
          have g' : Good ts' := g.tail ht
          have hf := ih.factor ts' g'
          split <;> simp_all [Post]
          omega
        · simp [Post]

/-- fuel sufficiency: with fuel > 2 * remaining tokens the parser never runs out -/
structure Fuel (f : Nat) : Prop where
  expr : ∀ ts, Good ts → 2 * ts.length + 1 < f → parseExpr f ts ≠ .fuel
  chain : ∀ t ts, Good ts → 2 * ts.length < f → chain f t ts ≠ .fuel
  factor : ∀ ts, Good ts → 2 * ts.length < f → parseFactor f ts ≠ .fuel

theorem fuel_ok : ∀ f, Fuel f := by
  intro f
  induction f with
  | zero => constructor <;> intros <;> omega
  | succ f ih =>
    refine ⟨?_, ?_, ?_⟩
    · intro ts g hf
      simp only [parseExpr]
      have h1 := ih.factor ts g (by omega)
      have p1 := (tot f).factor ts g
      split <;> simp_all [Post]
      next e ts' heq => exact ih.chain _ ts' p1.1 (by omega)
    · intro t ts g hf
      simp only [chain]
      split
      · simp
      · next o ts' =>
        have g' : Good ts' := g.tail (by simp)
        have h1 := ih.factor ts' g' (by simp at hf; omega)
        have p1 := (tot f).factor ts' g'
        split <;> simp_all [Post]
        next e ts'' heq => exact ih.chain _ ts'' p1.1 (by omega)
      · simp
    · intro ts g hf
      simp only [parseFactor]
      split
      · simp
      · simp
      · split <;> simp
      · next ts' =>
        have g' : Good ts' := g.tail (by simp)
        have h1 := ih.expr ts' g' (by simp at hf; omega)
        split <;> simp_all
      · next t ts' _ _ _ =>
        split
        · next u hu =>
          have ht : t ≠ .eof := by intro h; subst h; simp [unTok] at hu
          have g' : Good ts' := g.tail ht
          have h1 := ih.factor ts' g' (by simp at hf; omega)
          split <;> simp_all
        · simp

end PE
