/-! Probe: recursive-descent expression parser (fuel), totality and completeness w.r.t. a rendering -/
namespace PE

inductive BinOp | eq | ne | gt | lt | ge | le | or | xor | and | shl | shr | add | sub | mul | div | rem
deriving DecidableEq, Repr

def BinOp.prec : BinOp → Nat
  | .eq | .ne => 8 | .gt | .lt | .ge | .le => 7 | .or => 6 | .xor => 5 | .and => 4
  | .shl | .shr => 3 | .add | .sub => 2 | .mul | .div | .rem => 1

inductive UnOp | neg | lnot | bnot deriving DecidableEq, Repr

inductive Expr
  | num (n : Nat) | var (s : String) | bin (o : BinOp) (l r : Expr) | un (u : UnOp) (e : Expr)
deriving DecidableEq, Repr

inductive Tok | num (n : Nat) | ident (s : String) | lp | rp | op (o : BinOp) | lnot | bnot | eof | other
deriving DecidableEq, Repr

inductive T | atom (e : Expr) | node (o : BinOp) (l r : T)

def T.add : T → BinOp → Expr → T
  | .node o' l r, o, a => if o.prec < o'.prec then .node o' l (r.add o a) else .node o (.node o' l r) (.atom a)
  | .atom b, o, a => .node o (.atom b) (.atom a)

def T.toExpr : T → Expr
  | .atom e => e
  | .node o l r => .bin o l.toExpr r.toExpr

inductive Res (α : Type) | ok (a : α) | err (msg : String) | panic (site : String) | fuel
deriving Repr

def unTok : Tok → Option UnOp
  | .op .sub => some .neg | .lnot => some .lnot | .bnot => some .bnot | _ => none

mutual
def parseExpr : Nat → List Tok → Res (Expr × List Tok)
  | 0, _ => .fuel
  | f+1, ts =>
    match parseFactor f ts with
    | .ok (e, ts') => chain f (.atom e) ts'
    | .err m => .err m | .panic s => .panic s | .fuel => .fuel
def chain : Nat → T → List Tok → Res (Expr × List Tok)
  | 0, _, _ => .fuel
  | f+1, t, ts =>
    match ts with
    | [] => .panic "peek after EOF"
    | .op o :: ts' =>
      match parseFactor f ts' with
      | .ok (e, ts'') => chain f (t.add o e) ts''
      | .err m => .err m | .panic s => .panic s | .fuel => .fuel
    | _ :: _ => .ok (t.toExpr, ts)
def parseFactor : Nat → List Tok → Res (Expr × List Tok)
  | 0, _ => .fuel
  | f+1, ts =>
    match ts with
    | [] => .panic "peek after EOF"
    | .num n :: ts' => .ok (.num n, ts')
    | .ident s :: ts' =>
      match ts' with
      | [] => .panic "peek after EOF"
      | .lp :: _ => .err "function not found"
      | _ :: _ => .ok (.var s, ts')
    | .lp :: ts' =>
      match parseExpr f ts' with
      | .ok (e, .rp :: ts'') => .ok (e, ts'')
      | .ok (_, _ :: _) => .err "expected )"
      | .ok (_, []) => .err "eof"
      | .err m => .err m | .panic s => .panic s | .fuel => .fuel
    | t :: ts' =>
      match unTok t with
      | some u =>
        match parseFactor f ts' with
        | .ok (e, ts'') => .ok (.un u e, ts'')
        | .err m => .err m | .panic s => .panic s | .fuel => .fuel
      | none => .err "unexpected token"
end

/-- token streams as the lexer produces them: exactly one `eof`, at the end -/
def EndsEof (ts : List Tok) : Prop := ∃ pre, ts = pre ++ [.eof] ∧ .eof ∉ pre

end PE
