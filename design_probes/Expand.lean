/-! Probe: the lazy LIFO expansion of X and C (get_row / expand_x / expand_c) -/
namespace EX

inductive DE | num (n : Int) | x | z | c deriving DecidableEq, Repr

structure Row where
  entries : List DE
  line : Nat
  upd : Bool
deriving DecidableEq, Repr

variable (isIn : Nat → Bool) (isExp : Nat → Bool)

/-- right-most index holding `x` in an input column (the code scans `.enumerate().rev()`) -/
def lastX : List DE → Nat → Option Nat
  | [], _ => none
  | e :: es, i => match lastX es (i+1) with
    | some j => some j
    | none => if e = .x ∧ isIn i then some i else none

def setAt : List DE → Nat → DE → List DE
  | [], _, _ => []
  | _ :: es, 0, v => v :: es
  | e :: es, n+1, v => e :: setAt es n v

def numX : List DE → Nat → Nat
  | [], _ => 0
  | e :: es, i => (if e = .x ∧ isIn i then 1 else 0) + numX es (i+1)

/-- expand_x: split the top of the stack on its right-most input X until it has none -/
def expandX : Nat → List Row → List Row
  | 0, cache => cache
  | _, [] => []
  | f+1, r :: rest =>
    match lastX isIn r.entries 0 with
    | none => r :: rest
    | some i => expandX f ({ r with entries := setAt r.entries i (.num 0) } ::
                           { r with entries := setAt r.entries i (.num 1) } :: rest)

def mapIdx (f : Nat → DE → DE) : List DE → Nat → List DE
  | [], _ => []
  | e :: es, i => f i e :: mapIdx f es (i+1)

def hasC (es : List DE) : Bool := (mapIdx (fun i e => if e = .c ∧ isIn i then .c else .z) es 0).contains .c
def setC (v : Int) (es : List DE) : List DE := mapIdx (fun i e => if e = .c ∧ isIn i then .num v else e) es 0
/-- mid-clock rows: expected columns become X (input columns are left alone: fix F11) -/
def blank (es : List DE) : List DE := mapIdx (fun i e => if isExp i ∧ ¬ isIn i then .x else e) es 0

/-- expand_c on the top of the stack -/
def expandC : List Row → List Row
  | [] => []
  | r :: rest =>
    if hasC isIn r.entries then
      { r with entries := blank isIn isExp (setC isIn 0 r.entries), upd := false } ::
      { r with entries := blank isIn isExp (setC isIn 1 r.entries), upd := false } ::
      { r with entries := setC isIn 0 r.entries } :: rest
    else r :: rest

/-- one `get_row` on a non-empty cache -/
def getRow (cache : List Row) : Option (Row × List Row) :=
  match expandC isIn isExp (expandX isIn (numX isIn (cache.headD ⟨[],0,true⟩).entries 0 + 1) cache) with
  | [] => none
  | r :: rest => some (r, rest)

def drain : Nat → List Row → List Row
  | 0, _ => []
  | _, [] => []
  | f+1, cache => match getRow isIn isExp cache with
    | none => []
    | some (r, rest) => r :: drain f rest

/-- what one fully X-free row turns into -/
def triple (r : Row) : List Row :=
  if hasC isIn r.entries then
    [ { r with entries := blank isIn isExp (setC isIn 0 r.entries), upd := false },
      { r with entries := blank isIn isExp (setC isIn 1 r.entries), upd := false },
      { r with entries := setC isIn 0 r.entries } ]
  else [r]

/-- recursive specification: the right-most X varies slowest, 0 before 1 -/
def expR : Nat → Row → List Row
  | 0, r => triple isIn isExp r
  | k+1, r => match lastX isIn r.entries 0 with
    | none => triple isIn isExp r
    | some i => expR k { r with entries := setAt r.entries i (.num 0) } ++
                expR k { r with entries := setAt r.entries i (.num 1) }

#eval drain (fun i => i < 3) (fun i => i ≥ 3) 100 [⟨[.c, .x, .x, .num 1], 7, true⟩] |>.map (fun r => (r.entries.map (fun | .num n => toString n | .x => "X" | .z => "Z" | .c => "C"), r.upd))
#eval (drain (fun i => i < 3) (fun i => i ≥ 3) 100 [⟨[.c, .x, .x, .num 1], 7, true⟩]) == expR (fun i => i < 3) (fun i => i ≥ 3) 5 ⟨[.c, .x, .x, .num 1], 7, true⟩

end EX
