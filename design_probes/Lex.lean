/-! Probe: longest-match lexer, one scanner per kind; inserting a blank at a token boundary changes nothing (C20) -/
namespace LX

abbrev Str := List Char

def isBlank (c : Char) : Bool := c == ' ' || c == '\t' || c == '\r' || c == '\x0c'
def isIdS (c : Char) : Bool := c.isAlpha || c == '_'
def isIdC (c : Char) : Bool := c.isAlphanum || c == '_'
def isNZ (c : Char) : Bool := '1' ≤ c && c ≤ '9'
def isDig (c : Char) : Bool := c.isDigit
def isOct (c : Char) : Bool := '0' ≤ c && c ≤ '7'
def isHex (c : Char) : Bool := c.isDigit || ('a' ≤ c && c ≤ 'f') || ('A' ≤ c && c ≤ 'F')
def isX (c : Char) : Bool := c == 'x' || c == 'X'

def tw (q : Char → Bool) (s : Str) : Nat := (s.takeWhile q).length

def ins (s : Str) (p : Nat) (b : Char) : Str := s.take p ++ b :: s.drop p

theorem ins_zero (s : Str) (b) : ins s 0 b = b :: s := by simp [ins]
theorem ins_cons (c : Char) (s : Str) (p b) : ins (c :: s) (p+1) b = c :: ins s p b := by simp [ins]
theorem ins_nil (p b) : ins [] p b = [b] := by simp [ins]

theorem tw_ins (q : Char → Bool) (b : Char) (hb : q b = false) :
    ∀ (s : Str) (p : Nat), tw q s ≤ p → tw q (ins s p b) = tw q s
  | [], p, _ => by simp [ins_nil, tw, List.takeWhile, hb]
  | c :: cs, p, h => by
    by_cases hc : q c = true
    · have h' : tw q (c :: cs) = tw q cs + 1 := by simp [tw, List.takeWhile, hc]
      cases p with
      | zero => omega
      | succ p =>
        rw [ins_cons]
        have := tw_ins q b hb cs p (by omega)
        simp [tw, List.takeWhile, hc] at this ⊢
        exact this
    · have hc' : q c = false := by simpa using hc
      cases p with
      | zero => simp [ins_zero, tw, List.takeWhile, hb, hc']
      | succ p => simp [ins_cons, tw, List.takeWhile, hc']

inductive Kind | ident | dec | oct | hex | lt | shl | le | not | ne | eq | eol | error
deriving DecidableEq, Repr

def scanIdent : Str → Nat | c :: cs => if isIdS c then 1 + tw isIdC cs else 0 | [] => 0
def scanDec : Str → Nat | c :: cs => if isNZ c then 1 + tw isDig cs else 0 | [] => 0
def scanOct : Str → Nat | c :: cs => if c == '0' then 1 + tw isOct cs else 0 | [] => 0
def scanHex : Str → Nat
  | c :: x :: h :: cs => if c == '0' && isX x && isHex h then 3 + tw isHex cs else 0
  | _ => 0
def scan1 (a : Char) : Str → Nat | c :: _ => if c == a then 1 else 0 | [] => 0
def scan2 (a a' : Char) : Str → Nat | c :: c' :: _ => if c == a && c' == a' then 2 else 0 | _ => 0

/-- a scanner is stable if a blank inserted at or after the end of its match does not change the match -/
def Stable (sc : Str → Nat) : Prop :=
  ∀ (s : Str) (p : Nat) (b : Char), isBlank b = true → sc s ≤ p → 1 ≤ p → sc (ins s p b) = sc s

theorem blank_cases {b : Char} (hb : isBlank b = true) : b = ' ' ∨ b = '\t' ∨ b = '\r' ∨ b = '\x0c' := by
  simp only [isBlank, Bool.or_eq_true, beq_iff_eq] at hb
  rcases hb with ((h | h) | h) | h <;> simp [h]

structure BlankFacts (b : Char) : Prop where
  idS : isIdS b = false
  idC : isIdC b = false
  nz : isNZ b = false
  dig : isDig b = false
  oct : isOct b = false
  hex : isHex b = false
  x : isX b = false
  lit : ∀ a, a ∈ ['0', '<', '=', '!', '\n', '#'] → (b == a) = false

theorem blank_facts {b : Char} (hb : isBlank b = true) : BlankFacts b := by
  rcases blank_cases hb with rfl | rfl | rfl | rfl <;> exact ⟨by decide, by decide, by decide, by decide, by decide, by decide, by decide, by decide⟩

theorem stable_ident : Stable scanIdent := by
  intro s p b hb h hp
  have bf := blank_facts hb
  obtain ⟨p, rfl⟩ : ∃ p', p = p' + 1 := ⟨p - 1, by omega⟩
  cases s with
  | nil => simp [ins_nil, scanIdent, bf.idS]
  | cons c cs =>
    rw [ins_cons]; simp only [scanIdent] at h ⊢
    split
    · next hc => simp [hc] at h; rw [tw_ins _ _ bf.idC cs p (by omega)]
    · rfl

theorem stable_dec : Stable scanDec := by
  intro s p b hb h hp
  have bf := blank_facts hb
  obtain ⟨p, rfl⟩ : ∃ p', p = p' + 1 := ⟨p - 1, by omega⟩
  cases s with
  | nil => simp [ins_nil, scanDec, bf.nz]
  | cons c cs =>
    rw [ins_cons]; simp only [scanDec] at h ⊢
    split
    · next hc => simp [hc] at h; rw [tw_ins _ _ bf.dig cs p (by omega)]
    · rfl

theorem stable_oct : Stable scanOct := by
  intro s p b hb h hp
  have bf := blank_facts hb
  obtain ⟨p, rfl⟩ : ∃ p', p = p' + 1 := ⟨p - 1, by omega⟩
  cases s with
  | nil => simp [ins_nil, scanOct, bf.lit '0' (by simp)]
  | cons c cs =>
    rw [ins_cons]; simp only [scanOct] at h ⊢
    split
    · next hc => simp [hc] at h; rw [tw_ins _ _ bf.oct cs p (by omega)]
    · rfl

theorem stable_scan1 (a : Char) (ha : a ∈ ['0', '<', '=', '!', '\n', '#']) : Stable (scan1 a) := by
  intro s p b hb h hp
  have bf := blank_facts hb
  obtain ⟨p, rfl⟩ : ∃ p', p = p' + 1 := ⟨p - 1, by omega⟩
  cases s with
  | nil => simp [ins_nil, scan1, bf.lit a ha]
  | cons c cs => rw [ins_cons]; simp [scan1]

theorem stable_scan2 (a a' : Char) (ha : a' ∈ ['0', '<', '=', '!', '\n', '#']) : Stable (scan2 a a') := by
  intro s p b hb h hp
  have bf := blank_facts hb
  obtain ⟨p, rfl⟩ : ∃ p', p = p' + 1 := ⟨p - 1, by omega⟩
  match s, p with
  | [], p => simp [ins_nil, scan2]
  | [c], 0 => simp [ins, scan2, bf.lit a' ha]
  | [c], p+1 => simp [ins, scan2, bf.lit a' ha]
  | c :: c' :: cs, 0 =>
    simp only [scan2] at h
    split at h
    · omega
    · next hn => simp [ins, scan2, bf.lit a' ha, hn]
  | c :: c' :: cs, p+1 => simp [ins, scan2]

theorem stable_hex : Stable scanHex := by
  intro s p b hb h hp
  have bf := blank_facts hb
  obtain ⟨p, rfl⟩ : ∃ p', p = p' + 1 := ⟨p - 1, by omega⟩
  match s, p with
  | [], p => simp [ins_nil, scanHex]
  | [c], 0 => simp [ins, scanHex]
  | [c], p+1 => simp [ins, scanHex]
  | [c, x], 0 => simp [ins, scanHex, bf.x]
  | [c, x], 1 => simp [ins, scanHex, bf.hex]
  | [c, x], p+2 => simp [ins, scanHex, bf.hex]
  | c :: x :: h' :: cs, 0 =>
    simp only [scanHex] at h
    split at h
    · omega
    · next hn => simp [ins, scanHex, bf.x, hn]
  | c :: x :: h' :: cs, 1 =>
    simp only [scanHex] at h
    split at h
    · omega
    · next hn => simp [ins, scanHex, bf.hex, hn]
  | c :: x :: h' :: cs, p+2 =>
    have e : ins (c :: x :: h' :: cs) (p + 2 + 1) b = c :: x :: h' :: ins cs p b := by simp [ins]
    rw [e]; simp only [scanHex] at h ⊢
    split
    · next hc => simp [hc] at h; rw [tw_ins _ _ bf.hex cs p (by omega)]
    · rfl

end LX
