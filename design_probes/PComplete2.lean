import Probe.PComplete
namespace PE

def Follow1 (rest : List Tok) : Prop := ∃ t r, rest = t :: r ∧ t ≠ .lp
def Follow (rest : List Tok) : Prop := ∃ t r, rest = t :: r ∧ t ≠ .lp ∧ ∀ o, t ≠ .op o

def pairsSize (ps : List (BinOp × PX)) : Nat := (ps.map (fun q => q.2.size)).sum

theorem PX.size_eq (p : PX) : p.size = p.first.size + pairsSize p.pairs + p.pairs.length := by
  induction p with
  | bin o l r ihl ihr =>
    simp [PX.size, PX.first, PX.pairs, pairsSize] at *; omega
  | _ => simp [PX.size, PX.first, PX.pairs, pairsSize]

theorem mem_pairsSize {ps : List (BinOp × PX)} {q} (h : q ∈ ps) : q.2.size ≤ pairsSize ps := by
  induction ps with
  | nil => cases h
  | cons a ps ih =>
    simp [pairsSize] at *
    rcases h with rfl | h
    · omega
    · have := ih h; omega

theorem PX.size_pos (p : PX) : 0 < p.size := by cases p <;> simp [PX.size]

theorem PX.pairs_pos (p : PX) (h : ¬ p.isFactor) : 0 < p.pairs.length := by
  cases p <;> simp_all [PX.isFactor, PX.pairs] <;> omega

theorem PX.first_eq_self (p : PX) (h : p.isFactor) : p.first = p := by
  cases p <;> first | rfl | exact absurd h (by simp [PX.isFactor])

theorem PX.pairs_nil_of_factor (p : PX) (h : p.isFactor) : p.pairs = [] := by
  cases p <;> first | rfl | exact absurd h (by simp [PX.isFactor])

theorem PX.first_isFactor (p : PX) : p.first.isFactor := by
  induction p <;> simp_all [PX.first, PX.isFactor]

theorem PX.first_wp (p : PX) (h : p.WP) : p.first.WP := by
  induction p with
  | bin o l r ihl _ => exact ihl h.2.2.1
  | _ => simpa [PX.first] using h

theorem PX.pairs_wp (p : PX) (h : p.WP) : ∀ q ∈ p.pairs, q.2.WP ∧ q.2.isFactor := by
  induction p with
  | bin o l r ihl ihr =>
    intro q hq
    simp only [PX.pairs, List.mem_append, List.mem_cons] at hq
    rcases hq with hq | rfl | hq
    · exact ihl h.2.2.1 q hq
    · exact ⟨r.first_wp h.2.2.2, r.first_isFactor⟩
    · exact ihr h.2.2.2 q hq
  | _ => simp [PX.pairs]

/-- the chain loop consumes a list of (operator, factor) pairs and performs the insertions in order -/
theorem chain_pairs (B : Nat) (ps : List (BinOp × PX))
    (H : ∀ q ∈ ps, ∀ rest' g, Follow1 rest' → B < g → parseFactor g (q.2.toks ++ rest') = .ok (q.2.erase, rest'))
    (rest : List Tok) (hr : Follow rest) :
    ∀ f acc, B + ps.length < f →
      chain f acc (pairToks ps ++ rest) = .ok ((acc.addAll (ps.map fun q => (q.1, q.2.erase))).toExpr, rest) := by
  induction ps with
  | nil =>
    intro f acc hf
    obtain ⟨t, r, rfl, _, hop⟩ := hr
    cases f with
    | zero => omega
    | succ f =>
      simp only [pairToks, List.flatMap_nil, List.nil_append, List.map_nil, T.addAll, List.foldl_nil]
      cases t <;> simp_all [chain]
  | cons q ps ih =>
    intro f acc hf
    cases f with
    | zero => omega
    | succ f =>
      have hq := H q (by simp) (pairToks ps ++ rest) f
        (by
          cases ps with
          | nil => obtain ⟨t, r, rfl, h1, _⟩ := hr; exact ⟨t, r, by simp [pairToks], h1⟩
          | cons q' ps' => exact ⟨.op q'.1, q'.2.toks ++ pairToks ps' ++ rest, by simp [pairToks], by simp⟩)
        (by simp at hf; omega)
      simp only [pairToks, List.flatMap_cons, List.cons_append, List.append_assoc, chain]
      simp only [pairToks] at hq
      rw [hq]
      simp only [List.map_cons, T.addAll, List.foldl_cons]
      exact ih (fun q' hq' => H q' (by simp [hq'])) f _ (by simp at hf; omega)

theorem complete : ∀ n (p : PX), p.size ≤ n → p.WP →
    (p.isFactor → ∀ rest f, Follow1 rest → 2 * p.size < f → parseFactor f (p.toks ++ rest) = .ok (p.erase, rest)) ∧
    (∀ rest f, Follow rest → 2 * p.size + 1 < f → parseExpr f (p.toks ++ rest) = .ok (p.erase, rest)) := by
  intro n
  induction n with
  | zero => intro p hs; cases p <;> simp [PX.size] at hs
  | succ n ih =>
    intro p hs wp
    have hF : p.isFactor → ∀ rest f, Follow1 rest → 2 * p.size < f →
        parseFactor f (p.toks ++ rest) = .ok (p.erase, rest) := by
      intro hfac rest f hr hf
      obtain ⟨t, r, rfl, ht⟩ := hr
      cases f with
      | zero => omega
      | succ f =>
        cases p with
        | num k => simp [PX.toks, parseFactor, PX.erase]
        | var s => cases t <;> simp_all [PX.toks, parseFactor, PX.erase]
        | bin o l r' => exact absurd hfac (by simp [PX.isFactor])
        | un u e =>
          simp only [PX.size] at hs hf
          have := (ih e (by omega) wp.2).1 wp.1 (t :: r) f ⟨t, r, rfl, ht⟩ (by omega)
          cases u <;> simp [PX.toks, utok, parseFactor, unTok, this, PX.erase]
        | paren e =>
          simp only [PX.size] at hs hf
          have := (ih e (by omega) wp).2 (.rp :: t :: r) f
            ⟨.rp, t :: r, rfl, by simp, by simp⟩ (by omega)
          simp [PX.toks, parseFactor, this, PX.erase]
    refine ⟨hF, ?_⟩
    intro rest f hr hf
    cases f with
    | zero => omega
    | succ f =>
      rw [PX.toks_eq, List.append_assoc]
      simp only [parseExpr]
      have hsz := p.size_eq
      have hfirst : parseFactor f (p.first.toks ++ (pairToks p.pairs ++ rest)) =
          .ok (p.first.erase, pairToks p.pairs ++ rest) := by
        have hfol : Follow1 (pairToks p.pairs ++ rest) := by
          cases hp : p.pairs with
          | nil => obtain ⟨t, r, rfl, h1, _⟩ := hr; exact ⟨t, r, by simp [pairToks], h1⟩
          | cons q' ps' => exact ⟨.op q'.1, q'.2.toks ++ pairToks ps' ++ rest, by simp [pairToks], by simp⟩
        by_cases hb : p.isFactor
        · rw [p.first_eq_self hb]; exact hF hb _ f hfol (by omega)
        · have hlt : p.first.size ≤ n := by
            have := p.pairs_pos hb; omega
          exact (ih p.first hlt (p.first_wp wp)).1 p.first_isFactor _ f hfol (by omega)
      rw [hfirst]
      have hch := chain_pairs (2 * pairsSize p.pairs) p.pairs
        (by
          intro q hq rest' g hr' hg
          have hqs := mem_pairsSize hq
          have hle : q.2.size ≤ n := by
            have := p.first.size_pos; omega
          exact (ih q.2 hle (p.pairs_wp wp q hq).1).1 (p.pairs_wp wp q hq).2 rest' g hr' (by omega))
        rest hr f (.atom p.first.erase) (by omega)
      simp only [hch]
      congr 2
      have hb := T.build_complete p.tree (p.tree_ok wp)
      rw [PX.tree_seq, PX.tree_first] at hb
      rw [hb, PX.tree_toExpr]

end PE
