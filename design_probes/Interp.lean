/-! Feasibility probe: resumable statement iterator vs. big-step semantics -/
namespace P

abbrev Val := Int64

/-- abstract expression + context, to see whether the control proof is independent of them -/
structure Sig where
  Expr : Type
  Ctx : Type
  Row : Type
  World : Type
  eval : Expr → Ctx → Except String (Val × Ctx)
  evalRow : List Expr → Nat → Ctx → Except String (Row × Ctx)
  push : Ctx → Ctx
  pop : Ctx → Ctx
  set : Ctx → String → Val → Ctx
  getVar : Ctx → String → Option Val
  resetRng : Ctx → Ctx
  respond : World → Row → Ctx → World × Ctx

variable (S : Sig)

inductive Stmt (E : Type) where
  | letS (name : String) (e : E)
  | row (data : List E) (line : Nat)
  | loop (var : String) (max : E) (body : List (Stmt E))
  | while (cond : E) (body : List (Stmt E))
  | resetRandom

structure LoopState (E : Type) where
  var : String
  max : Val
  stmts : List (Stmt E)

structure WhileState (E : Type) where
  cond : E
  stmts : List (Stmt E)

mutual
inductive It (E : Type) where
  | mk (rest : List (Stmt E)) (st : ItState E)
inductive ItState (E : Type) where
  | iterate
  | startLoop (ls : LoopState E)
  | startInner (ls : LoopState E)
  | inner (it : It E) (ls : LoopState E)
  | endInner (ls : LoopState E)
  | startWhile (ws : WhileState E)
  | whileInner (it : It E) (ws : WhileState E)
end

inductive StepRes (E C R : Type) where
  | yield (r : R) (it : It E) (c : C)
  | done (it : It E) (c : C)
  | cont (it : It E) (c : C)
  | err (e : String)
  | panic (msg : String)

open StepRes

/-- one micro-step of `next_with_context`'s `loop { match state }` -/
def step : It S.Expr → S.Ctx → StepRes S.Expr S.Ctx S.Row
  | .mk rest .iterate, c =>
    match rest with
    | [] => .done (.mk [] .iterate) c
    | s :: rest' =>
      match s with
      | .letS name e =>
        match S.eval e c with
        | .error er => .err er
        | .ok (v, c') => .cont (.mk rest' .iterate) (S.set c' name v)
      | .row data line =>
        match S.evalRow data line c with
        | .error er => .err er
        | .ok (r, c') => .yield r (.mk rest' .iterate) c'
      | .loop var max body =>
        match S.eval max c with
        | .error er => .err er
        | .ok (v, c') => .cont (.mk rest' (.startLoop ⟨var, v, body⟩)) c'
      | .resetRandom => .cont (.mk rest' .iterate) (S.resetRng c)
      | .while cond body => .cont (.mk rest' (.startWhile ⟨cond, body⟩)) c
  | .mk rest (.startLoop ls), c =>
    .cont (.mk rest (.startInner ls)) (S.set (S.push c) ls.var 0)
  | .mk rest (.startInner ls), c =>
    .cont (.mk rest (.inner (.mk ls.stmts .iterate) ls)) c
  | .mk rest (.inner it ls), c =>
    match step it c with
    | .yield r it' c' => .yield r (.mk rest (.inner it' ls)) c'
    | .cont it' c' => .cont (.mk rest (.inner it' ls)) c'
    | .done _ c' => .cont (.mk rest (.endInner ls)) c'
    | .err e => .err e
    | .panic m => .panic m
  | .mk rest (.endInner ls), c =>
    match S.getVar c ls.var with
    | none => .panic "loop var"
    | some prev =>
      let v := prev + 1
      if v < ls.max then .cont (.mk rest (.startInner ls)) (S.set c ls.var v)
      else .cont (.mk rest .iterate) (S.pop c)
  | .mk rest (.startWhile ws), c =>
    match S.eval ws.cond c with
    | .error er => .err er
    | .ok (v, c') =>
      if v = 0 then .cont (.mk rest .iterate) c'
      else .cont (.mk rest (.whileInner (.mk ws.stmts .iterate) ws)) c'
  | .mk rest (.whileInner it ws), c =>
    match step it c with
    | .yield r it' c' => .yield r (.mk rest (.whileInner it' ws)) c'
    | .cont it' c' => .cont (.mk rest (.whileInner it' ws)) c'
    | .done _ c' => .cont (.mk rest (.startWhile ws)) c'
    | .err e => .err e
    | .panic m => .panic m

end P
