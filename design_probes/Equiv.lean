import Probe.Interp
namespace P
variable (S : Sig)

structure Sys where
  ctx : S.Ctx
  world : S.World
  log : List S.Row

/-- one micro step of the whole system (iterator + environment) -/
inductive Micro : It S.Expr × Sys S → It S.Expr × Sys S → Prop where
  | cont {it it' c c' w l} : step S it c = .cont it' c' → Micro (it, ⟨c, w, l⟩) (it', ⟨c', w, l⟩)
  | yield {it it' c c' w l r} : step S it c = .yield r it' c' →
      Micro (it, ⟨c, w, l⟩) (it', ⟨(S.respond w r c').2, (S.respond w r c').1, l ++ [r]⟩)

inductive Steps : It S.Expr × Sys S → It S.Expr × Sys S → Prop where
  | refl (a) : Steps a a
  | head {a b c} : Micro S a b → Steps b c → Steps a c

theorem Steps.trans {a b c} (h1 : Steps S a b) (h2 : Steps S b c) : Steps S a c := by
  induction h1 with
  | refl => exact h2
  | head m _ ih => exact .head m (ih h2)

theorem Steps.single {a b} (m : Micro S a b) : Steps S a b := .head m (.refl _)

mutual
def execBlock : Nat → List (Stmt S.Expr) → Sys S → Option (Sys S)
  | 0, _, _ => none
  | _+1, [], σ => some σ
  | fuel+1, s :: rest, σ =>
    match execStmt fuel s σ with
    | none => none
    | some σ' => execBlock fuel rest σ'
def execStmt : Nat → Stmt S.Expr → Sys S → Option (Sys S)
  | 0, _, _ => none
  | fuel+1, s, σ =>
    match s with
    | .letS name e =>
      match S.eval e σ.ctx with
      | .error _ => none
      | .ok (v, c') => some { σ with ctx := S.set c' name v }
    | .row data line =>
      match S.evalRow data line σ.ctx with
      | .error _ => none
      | .ok (r, c') => some ⟨(S.respond σ.world r c').2, (S.respond σ.world r c').1, σ.log ++ [r]⟩
    | .resetRandom => some { σ with ctx := S.resetRng σ.ctx }
    | .loop var max body =>
      match S.eval max σ.ctx with
      | .error _ => none
      | .ok (n, c') => loopIter fuel var n body { σ with ctx := S.set (S.push c') var 0 }
    | .while cond body => whileIter fuel cond body σ
def loopIter : Nat → String → Val → List (Stmt S.Expr) → Sys S → Option (Sys S)
  | 0, _, _, _, _ => none
  | fuel+1, var, n, body, σ1 =>
    match execBlock fuel body σ1 with
    | none => none
    | some σ2 =>
      match S.getVar σ2.ctx var with
      | none => none
      | some prev =>
        if prev + 1 < n then loopIter fuel var n body { σ2 with ctx := S.set σ2.ctx var (prev + 1) }
        else some { σ2 with ctx := S.pop σ2.ctx }
def whileIter : Nat → S.Expr → List (Stmt S.Expr) → Sys S → Option (Sys S)
  | 0, _, _, _ => none
  | fuel+1, cond, body, σ1 =>
    match S.eval cond σ1.ctx with
    | .error _ => none
    | .ok (v, c') =>
      if v = 0 then some { σ1 with ctx := c' }
      else match execBlock fuel body { σ1 with ctx := c' } with
        | none => none
        | some σ2 => whileIter fuel cond body σ2
end

/-- lifting a run of the inner iterator through the enclosing `IterateInner` state -/
theorem lift_inner {it it' : It S.Expr} {σ σ' : Sys S} (rest ls)
    (h : Steps S (it, σ) (it', σ')) :
    Steps S (.mk rest (.inner it ls), σ) (.mk rest (.inner it' ls), σ') := by
  generalize ha : (it, σ) = a at h
  generalize hb : (it', σ') = b at h
  induction h generalizing it σ with
  | refl => cases ha; cases hb; exact .refl _
  | head m _ ih =>
    cases ha
    cases m with
    | cont hs => exact .head (.cont (by simp [step, hs])) (ih rfl hb)
    | yield hs => exact .head (.yield (by simp [step, hs])) (ih rfl hb)

theorem lift_while {it it' : It S.Expr} {σ σ' : Sys S} (rest ws)
    (h : Steps S (it, σ) (it', σ')) :
    Steps S (.mk rest (.whileInner it ws), σ) (.mk rest (.whileInner it' ws), σ') := by
  generalize ha : (it, σ) = a at h
  generalize hb : (it', σ') = b at h
  induction h generalizing it σ with
  | refl => cases ha; cases hb; exact .refl _
  | head m _ ih =>
    cases ha
    cases m with
    | cont hs => exact .head (.cont (by simp [step, hs])) (ih rfl hb)
    | yield hs => exact .head (.yield (by simp [step, hs])) (ih rfl hb)

end P
