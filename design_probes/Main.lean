import Probe.Equiv
namespace P
variable (S : Sig)

theorem Steps.cont1 {it it' : It S.Expr} {c c' : S.Ctx} {w l b}
    (hs : step S it c = .cont it' c') (h : Steps S (it', ⟨c', w, l⟩) b) : Steps S (it, ⟨c, w, l⟩) b :=
  .head (.cont hs) h
theorem Steps.cont0 {it it' : It S.Expr} {c c' : S.Ctx} {w l}
    (hs : step S it c = .cont it' c') : Steps S (it, ⟨c, w, l⟩) (it', ⟨c', w, l⟩) :=
  .single S (.cont hs)

/-- what the four mutually recursive big-step functions promise about the machine, at a given fuel -/
structure Sound (fuel : Nat) : Prop where
  block : ∀ ss rest (σ σ' : Sys S), execBlock S fuel ss σ = some σ' →
    Steps S (.mk (ss ++ rest) .iterate, σ) (.mk rest .iterate, σ')
  stmt : ∀ s rest (σ σ' : Sys S), execStmt S fuel s σ = some σ' →
    Steps S (.mk (s :: rest) .iterate, σ) (.mk rest .iterate, σ')
  loop : ∀ var n body rest (σ σ' : Sys S), loopIter S fuel var n body σ = some σ' →
    Steps S (.mk rest (.startInner ⟨var, n, body⟩), σ) (.mk rest .iterate, σ')
  whil : ∀ cond body rest (σ σ' : Sys S), whileIter S fuel cond body σ = some σ' →
    Steps S (.mk rest (.startWhile ⟨cond, body⟩), σ) (.mk rest .iterate, σ')

theorem sound : ∀ fuel, Sound S fuel := by
  intro fuel
  induction fuel with
  | zero =>
    constructor <;> intros <;> simp_all [execBlock, execStmt, loopIter, whileIter]
  | succ fuel ih =>
    constructor
    · -- block
      intro ss rest σ σ' h
      cases ss with
      | nil => simp [execBlock] at h; subst h; exact .refl _
      | cons s ss' =>
        simp only [execBlock] at h
        split at h
        · cases h
        · next σ1 hs => exact (ih.stmt s (ss' ++ rest) σ σ1 hs).trans S (ih.block ss' rest σ1 σ' h)
    · -- stmt
      intro s rest σ σ' h
      obtain ⟨c, w, l⟩ := σ
      cases s with
      | letS name e =>
        simp only [execStmt] at h
        split at h
        · cases h
        · next v c' he => cases h; exact .cont0 S (by simp [step, he])
      | row data line =>
        simp only [execStmt] at h
        split at h
        · cases h
        · next r c' he => cases h; exact .single S (.yield (by simp [step, he]))
      | resetRandom =>
        simp only [execStmt] at h; cases h; exact .cont0 S (by simp [step])
      | loop var max body =>
        simp only [execStmt] at h
        split at h
        · cases h
        · next n c' he =>
          refine .cont1 S (it' := .mk rest (.startLoop ⟨var, n, body⟩)) (c' := c') (by simp [step, he]) ?_
          refine .cont1 S (it' := .mk rest (.startInner ⟨var, n, body⟩)) (c' := S.set (S.push c') var 0) (by simp [step]) ?_
          exact ih.loop var n body rest _ _ h
      | «while» cond body =>
        simp only [execStmt] at h
        refine .cont1 S (it' := .mk rest (.startWhile ⟨cond, body⟩)) (c' := c) (by simp [step]) ?_
        exact ih.whil cond body rest _ _ h
    · -- loop
      intro var n body rest σ σ' h
      simp only [loopIter] at h
      split at h
      · cases h
      · next σ2 hb =>
        obtain ⟨c, w, l⟩ := σ
        obtain ⟨c2, w2, l2⟩ := σ2
        have hbody := ih.block body [] _ _ hb
        simp only [List.append_nil] at hbody
        refine .cont1 S (it' := .mk rest (.inner (.mk body .iterate) ⟨var, n, body⟩)) (c' := c) (by simp [step]) ?_
        refine (lift_inner S rest ⟨var, n, body⟩ hbody).trans S ?_
        refine .cont1 S (it' := .mk rest (.endInner ⟨var, n, body⟩)) (c' := c2) (by simp [step]) ?_
        simp only at h
        split at h
        · cases h
        · next prev hg =>
          split at h
          · next hlt =>
            refine .cont1 S (it' := .mk rest (.startInner ⟨var, n, body⟩)) (c' := S.set c2 var (prev + 1)) (by simp [step, hg, hlt]) ?_
            exact ih.loop var n body rest _ _ h
          · next hlt =>
            cases h
            exact .cont0 S (by simp [step, hg, hlt])
    · -- while
      intro cond body rest σ σ' h
      obtain ⟨c, w, l⟩ := σ
      simp only [whileIter] at h
      split at h
      · cases h
      · next v c' he =>
        split at h
        · next hv => cases h; exact .cont0 S (by simp [step, he, hv])
        · next hv =>
          split at h
          · cases h
          · next σ2 hb =>
            obtain ⟨c2, w2, l2⟩ := σ2
            have hbody := ih.block body [] _ _ hb
            simp only [List.append_nil] at hbody
            refine .cont1 S (it' := .mk rest (.whileInner (.mk body .iterate) ⟨cond, body⟩)) (c' := c') (by simp [step, he, hv]) ?_
            refine (lift_while S rest ⟨cond, body⟩ hbody).trans S ?_
            refine .cont1 S (it' := .mk rest (.startWhile ⟨cond, body⟩)) (c' := c2) (by simp [step]) ?_
            exact ih.whil cond body rest _ _ h

end P
