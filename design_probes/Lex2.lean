import Probe.Lex
namespace LX

def scanners : List (Kind × (Str → Nat)) :=
  [(.ident, scanIdent), (.dec, scanDec), (.hex, scanHex), (.oct, scanOct),
   (.shl, scan2 '<' '<'), (.le, scan2 '<' '='), (.ne, scan2 '!' '='),
   (.lt, scan1 '<'), (.not, scan1 '!'), (.eq, scan1 '='), (.eol, scan1 '\n')]

def pick (l : List (Kind × Nat)) (acc : Kind × Nat) : Kind × Nat :=
  l.foldl (fun acc kn => if acc.2 < kn.2 then kn else acc) acc

def vals (s : Str) : List (Kind × Nat) := scanners.map (fun ks => (ks.1, ks.2 s))

/-- longest match, earlier kind on ties; `(error, 0)` when nothing matches -/
def best (s : Str) : Kind × Nat := pick (vals s) (.error, 0)

theorem pick_ge (l : List (Kind × Nat)) (acc : Kind × Nat) :
    acc.2 ≤ (pick l acc).2 ∧ ∀ kn ∈ l, kn.2 ≤ (pick l acc).2 := by
  induction l generalizing acc with
  | nil => simp [pick]
  | cons a l ih =>
    simp only [pick, List.foldl_cons]
    by_cases hlt : acc.2 < a.2
    · simp only [hlt, if_true]
      have := ih a; simp only [pick] at this
      refine ⟨by omega, ?_⟩
      intro kn hkn; rcases List.mem_cons.1 hkn with rfl | hkn
      · exact this.1
      · exact this.2 kn hkn
    · simp only [hlt, if_false]
      have := ih acc; simp only [pick] at this
      refine ⟨this.1, ?_⟩
      intro kn hkn; rcases List.mem_cons.1 hkn with rfl | hkn
      · omega
      · exact this.2 kn hkn

theorem pick_mem (l : List (Kind × Nat)) (acc : Kind × Nat) : pick l acc = acc ∨ pick l acc ∈ l := by
  induction l generalizing acc with
  | nil => simp [pick]
  | cons a l ih =>
    simp only [pick, List.foldl_cons]
    by_cases hlt : acc.2 < a.2
    · simp only [hlt, if_true]
      rcases ih a with h | h <;> simp only [pick] at h
      · right; rw [h]; simp
      · right; simp [h]
    · simp only [hlt, if_false]
      rcases ih acc with h | h <;> simp only [pick] at h
      · left; exact h
      · right; simp [h]

theorem tw_le (q) (s : Str) : tw q s ≤ s.length := (List.takeWhile_sublist q).length_le

theorem scanners_le : ∀ ks ∈ scanners, ∀ s : Str, ks.2 s ≤ s.length := by
  intro ks h s
  simp only [scanners, List.mem_cons, List.mem_nil_iff, or_false] at h
  rcases h with rfl | rfl | rfl | rfl | rfl | rfl | rfl | rfl | rfl | rfl | rfl
  · cases s with
    | nil => simp [scanIdent]
    | cons c cs => simp only [scanIdent]; split <;> simp; have := tw_le isIdC cs; omega
  · cases s with
    | nil => simp [scanDec]
    | cons c cs => simp only [scanDec]; split <;> simp; have := tw_le isDig cs; omega
  · match s with
    | [] | [_] | [_, _] => simp [scanHex]
    | c :: x :: h :: cs => simp only [scanHex]; split <;> simp; have := tw_le isHex cs; omega
  · cases s with
    | nil => simp [scanOct]
    | cons c cs => simp only [scanOct]; split <;> simp; have := tw_le isOct cs; omega
  all_goals
    match s with
    | [] => simp [scan1, scan2]
    | [_] => simp [scan1, scan2]; try (split <;> simp)
    | c :: c' :: cs => simp [scan1, scan2]; split <;> simp

theorem best_le (s : Str) : (best s).2 ≤ s.length := by
  rcases pick_mem (vals s) (.error, 0) with h | h
  · simp [best, h]
  · simp only [vals, List.mem_map] at h
    obtain ⟨ks, hks, he⟩ := h
    have := scanners_le ks hks s
    simp only [best, vals]; rw [← he]; exact this

theorem scanners_stable : ∀ ks ∈ scanners, Stable ks.2 := by
  intro ks h
  simp only [scanners, List.mem_cons, List.mem_nil_iff, or_false] at h
  rcases h with rfl | rfl | rfl | rfl | rfl | rfl | rfl | rfl | rfl | rfl | rfl
  · exact stable_ident
  · exact stable_dec
  · exact stable_hex
  · exact stable_oct
  · exact stable_scan2 _ _ (by simp)
  · exact stable_scan2 _ _ (by simp)
  · exact stable_scan2 _ _ (by simp)
  · exact stable_scan1 _ (by simp)
  · exact stable_scan1 _ (by simp)
  · exact stable_scan1 _ (by simp)
  · exact stable_scan1 _ (by simp)

/-- a blank inserted at or after the end of the winning token does not change what is recognised -/
theorem best_ins (s : Str) (p : Nat) (b : Char) (hb : isBlank b = true) (h : (best s).2 ≤ p) (hp : 1 ≤ p) :
    best (ins s p b) = best s := by
  have hv : vals (ins s p b) = vals s := by
    simp only [vals]
    apply List.map_congr_left
    intro ks hks
    have hle : ks.2 s ≤ (best s).2 :=
      (pick_ge (vals s) (.error, 0)).2 (ks.1, ks.2 s) (by simp only [vals, List.mem_map]; exact ⟨ks, hks, rfl⟩)
    rw [scanners_stable ks hks s p b hb (by omega) hp]
  simp [best, hv]

/-- length of the token (or error character) at the head of a non-blank, non-comment position -/
def tokLen (s : Str) : Nat := max 1 (best s).2

def comLen (cs : Str) : Nat := (cs.takeWhile (· != '\n')).length

/-- kinds and texts of all tokens -/
def lexAll : Nat → Str → List (Kind × Str)
  | 0, _ => []
  | _+1, [] => []
  | f+1, c :: cs =>
    if isBlank c then lexAll f cs
    else if c == '#' then lexAll f (cs.drop (comLen cs))
    else ((best (c :: cs)).1, (c :: cs).take (tokLen (c :: cs))) :: lexAll f ((c :: cs).drop (tokLen (c :: cs)))

/-- `p` is a position the lexer passes through between tokens -/
def Boundary : Nat → Str → Nat → Prop
  | _, _, 0 => True
  | 0, _, _+1 => False
  | _+1, [], _+1 => False
  | f+1, c :: cs, p+1 =>
    if isBlank c then Boundary f cs p
    else if c == '#' then comLen cs + 1 ≤ p + 1 ∧ Boundary f (cs.drop (comLen cs)) (p - comLen cs)
    else tokLen (c :: cs) ≤ p + 1 ∧ Boundary f ((c :: cs).drop (tokLen (c :: cs))) (p + 1 - tokLen (c :: cs))

theorem drop_ins : ∀ (s : Str) (n p : Nat) (b : Char), n ≤ p → n ≤ s.length →
    (ins s p b).drop n = ins (s.drop n) (p - n) b
  | s, 0, p, b, _, _ => by simp
  | [], n+1, p, b, _, h => by simp at h
  | c :: cs, n+1, p+1, b, h, hl => by
    rw [ins_cons]; simp only [List.drop_succ_cons]
    have := drop_ins cs n p b (by omega) (by simpa using hl)
    rw [this]; congr 1; omega

theorem tokLen_le (c : Char) (cs : Str) : tokLen (c :: cs) ≤ (c :: cs).length := by
  have := best_le (c :: cs); simp only [tokLen, List.length_cons] at *; omega

theorem lexAll_fuel : ∀ (f : Nat) (s : Str), s.length ≤ f → lexAll (f+1) s = lexAll f s := by
  intro f
  induction f with
  | zero => intro s h; have : s = [] := by cases s <;> simp_all
            subst this; simp [lexAll]
  | succ f ih =>
    intro s h
    cases s with
    | nil => simp [lexAll]
    | cons c cs =>
      have hpos : 1 ≤ tokLen (c :: cs) := by simp [tokLen]; omega
      simp only [List.length_cons] at h
      rw [lexAll, lexAll]
      rw [ih cs (by omega), ih (cs.drop (comLen cs)) (by simp; omega),
          ih ((c :: cs).drop (tokLen (c :: cs))) (by simp only [List.length_drop, List.length_cons]; omega)]

/-- a blank inserted exactly at the end of a run of non-newline characters joins the run -/
theorem com_ins_eq (b : Char) (hb : (b != '\n') = true) : ∀ (s : Str),
    (ins s (comLen s) b).drop (comLen (ins s (comLen s) b)) = s.drop (comLen s)
  | [] => by simp [ins_nil, comLen, List.takeWhile, hb]
  | c :: cs => by
    by_cases hc : (c != '\n') = true
    · have h1 : comLen (c :: cs) = comLen cs + 1 := by simp [comLen, List.takeWhile, hc]
      rw [h1, ins_cons]
      have h2 : comLen (c :: ins cs (comLen cs) b) = comLen (ins cs (comLen cs) b) + 1 := by
        simp [comLen, List.takeWhile, hc]
      rw [h2]; simp only [List.drop_succ_cons]; exact com_ins_eq b hb cs
    · have hc' : (c != '\n') = false := by simpa using hc
      have h1 : comLen (c :: cs) = 0 := by simp [comLen, List.takeWhile, hc']
      rw [h1, ins_zero]
      have h2 : comLen (b :: c :: cs) = 1 := by simp [comLen, List.takeWhile, hb, hc']
      rw [h2]; simp

/-- a blank inserted strictly after the end of the run leaves the run alone -/
theorem com_ins_gt (b : Char) : ∀ (s : Str) (p : Nat), comLen s < p → comLen s < s.length →
    comLen (ins s p b) = comLen s
  | [], p, _, h => by simp [comLen] at h
  | c :: cs, 0, h, _ => by omega
  | c :: cs, p+1, h, hl => by
    rw [ins_cons]
    by_cases hc : (c != '\n') = true
    · have h1 : comLen (c :: cs) = comLen cs + 1 := by simp [comLen, List.takeWhile, hc]
      have h2 : comLen (c :: ins cs p b) = comLen (ins cs p b) + 1 := by simp [comLen, List.takeWhile, hc]
      rw [h1, h2, com_ins_gt b cs p (by omega) (by simp at hl; omega)]
    · have hc' : (c != '\n') = false := by simpa using hc
      simp [comLen, List.takeWhile, hc']

theorem comLen_le (s : Str) : comLen s ≤ s.length := (List.takeWhile_sublist _).length_le

/-- kinds and lengths are unchanged by a blank inserted at a boundary -/
theorem lex_ins (b : Char) (hb : isBlank b = true) :
    ∀ (f : Nat) (s : Str) (p : Nat), Boundary f s p → s.length ≤ f →
      (lexAll (f+1) (ins s p b)).map (fun t => (t.1, t.2.length)) = (lexAll f s).map (fun t => (t.1, t.2.length)) := by
  intro f
  induction f with
  | zero =>
    intro s p hB hl
    have : s = [] := by cases s <;> simp_all
    subst this
    cases p with
    | zero => simp [ins_nil, lexAll, hb]
    | succ p => simp [Boundary] at hB
  | succ f ih =>
    intro s p hB hl
    cases p with
    | zero => rw [ins_zero]; simp [lexAll, hb]
    | succ p =>
      cases s with
      | nil => simp [Boundary] at hB
      | cons c cs =>
        rw [ins_cons]
        simp only [Boundary] at hB
        by_cases hc : isBlank c = true
        · simp only [hc, if_true] at hB
          have := ih cs p hB (by simpa using hl)
          simp only [lexAll, hc, if_true]; exact this
        · by_cases hh : (c == '#') = true
          · have bf := blank_facts hb
            have hbn : (b != '\n') = true := by have := bf.lit '\n' (by simp); simpa [bne] using this
            simp only [hc, hh, if_true, if_false, Bool.false_eq_true] at hB
            obtain ⟨hlen, hB'⟩ := hB
            simp only [lexAll, hc, hh, if_true, if_false, Bool.false_eq_true]
            by_cases hpe : p = comLen cs
            · subst hpe
              rw [com_ins_eq b hbn cs, lexAll_fuel f _ (by simp at hl ⊢; omega)]
            · have hgt : comLen cs < p := by omega
              have hne : cs.drop (comLen cs) ≠ [] := by
                intro he; rw [he] at hB'
                obtain ⟨k, hk⟩ : ∃ k, p - comLen cs = k + 1 := ⟨p - comLen cs - 1, by omega⟩
                rw [hk] at hB'; cases f <;> simp [Boundary] at hB'
              have hlt : comLen cs < cs.length := by
                rcases Nat.lt_or_ge (comLen cs) cs.length with h | h
                · exact h
                · exact absurd (List.drop_of_length_le h) hne
              rw [com_ins_gt b cs p hgt hlt, drop_ins cs (comLen cs) p b (by omega) (comLen_le cs)]
              exact ih (cs.drop (comLen cs)) (p - comLen cs) hB' (by simp at hl ⊢; omega)
          · simp only [hc, hh, if_false, Bool.false_eq_true] at hB
            obtain ⟨hlen, hB'⟩ := hB
            have hbest : best (c :: ins cs p b) = best (c :: cs) := by
              rw [← ins_cons]; exact best_ins (c :: cs) (p+1) b hb (by simp only [tokLen] at hlen; omega) (by omega)
            have htl : tokLen (c :: ins cs p b) = tokLen (c :: cs) := by simp [tokLen, hbest]
            have hd : (c :: ins cs p b).drop (tokLen (c :: cs)) =
                ins ((c :: cs).drop (tokLen (c :: cs))) (p + 1 - tokLen (c :: cs)) b := by
              rw [← ins_cons]; exact drop_ins _ _ _ _ hlen (tokLen_le c cs)
            have hpos : 1 ≤ tokLen (c :: cs) := by simp [tokLen]; omega
            have := ih ((c :: cs).drop (tokLen (c :: cs))) (p + 1 - tokLen (c :: cs)) hB'
              (by simp only [List.length_drop, List.length_cons] at hl ⊢; omega)
            simp only [lexAll, hc, hh, if_false, Bool.false_eq_true, List.map_cons, hbest, htl, hd, this]
            congr 2
            simp only [List.length_take]
            have h1 := tokLen_le c cs
            have h2 : (c :: ins cs p b).length = (c :: cs).length + 1 := by simp [ins]; omega
            omega

end LX
