namespace P

inductive T (α : Type) where
  | atom (a : α)
  | node (o : Nat) (l r : T α)   -- o = precedence number of the operator (smaller binds tighter); op identity irrelevant here
deriving Repr

variable {α : Type}

/-- BinOpTree::add -/
def T.add : T α → Nat → α → T α
  | .node o' l r, o, a => if o < o' then .node o' l (r.add o a) else .node o (.node o' l r) (.atom a)
  | .atom b, o, a => .node o (.atom b) (.atom a)

def T.addAll (t : T α) (ps : List (Nat × α)) : T α := ps.foldl (fun t p => t.add p.1 p.2) t

def T.first : T α → α
  | .atom a => a
  | .node _ l _ => l.first

def T.seq : T α → List (Nat × α)
  | .atom _ => []
  | .node o l r => l.seq ++ (o, r.first) :: r.seq

def T.rootLe (t : T α) (p : Nat) : Prop := match t with | .atom _ => True | .node o _ _ => o ≤ p
def T.rootLt (t : T α) (p : Nat) : Prop := match t with | .atom _ => True | .node o _ _ => o < p

/-- the shape a correct precedence / left-associative parse must have -/
def T.OK : T α → Prop
  | .atom _ => True
  | .node o l r => l.rootLe o ∧ r.rootLt o ∧ l.OK ∧ r.OK

theorem T.seq_le {t : T α} (h : t.OK) {p} (hp : t.rootLe p) : ∀ q ∈ t.seq, q.1 ≤ p := by
  induction t generalizing p with
  | atom a => simp [T.seq]
  | node o l r ihl ihr =>
    obtain ⟨hl, hr, okl, okr⟩ := h
    simp only [T.rootLe] at hp
    intro q hq
    simp only [T.seq, List.mem_append, List.mem_cons] at hq
    rcases hq with hq | hq | hq
    · have := ihl okl (p := o) hl q hq; omega
    · subst hq; simpa using hp
    · have : r.rootLe o := by cases r <;> simp_all [T.rootLe, T.rootLt]; omega
      have := ihr okr this q hq; omega

theorem T.seq_lt {t : T α} (h : t.OK) {p} (hp : t.rootLt p) : ∀ q ∈ t.seq, q.1 < p := by
  cases t with
  | atom a => simp [T.seq]
  | node o l r =>
    intro q hq
    have := T.seq_le h (p := o) (by simp [T.rootLe]) q hq
    simp only [T.rootLt] at hp; omega

theorem T.addAll_node (o : Nat) (l x : T α) (ps : List (Nat × α)) (h : ∀ q ∈ ps, q.1 < o) :
    (T.node o l x).addAll ps = .node o l (x.addAll ps) := by
  induction ps generalizing x with
  | nil => rfl
  | cons p ps ih =>
    have hp : p.1 < o := h p (by simp)
    simp only [T.addAll, List.foldl_cons, T.add, hp, if_true]
    exact ih _ (fun q hq => h q (by simp [hq]))

/-- completeness of the insertion algorithm: every well-shaped tree is rebuilt from its in-order sequence -/
theorem T.build_complete (t : T α) (h : t.OK) : (T.atom t.first).addAll t.seq = t := by
  induction t with
  | atom a => rfl
  | node o l r ihl ihr =>
    obtain ⟨hl, hr, okl, okr⟩ := h
    simp only [T.seq, T.first, T.addAll, List.foldl_append, List.foldl_cons]
    have h1 := ihl okl
    simp only [T.addAll] at h1
    rw [h1]
    have h2 : l.add o r.first = .node o l (.atom r.first) := by
      cases l with
      | atom b => rfl
      | node o' l' r' => simp only [T.rootLe] at hl; simp [T.add]; omega
    rw [h2]
    have := T.addAll_node o l (.atom r.first) r.seq (T.seq_lt okr hr)
    simp only [T.addAll] at this
    rw [this]
    have h3 := ihr okr
    simp only [T.addAll] at h3
    rw [h3]

/-- soundness: `add` keeps the tree well-shaped and appends to the in-order sequence -/
theorem T.add_ok (t : T α) (o : Nat) (a : α) (h : t.OK) :
    (t.add o a).OK ∧ (t.add o a).first = t.first ∧ (t.add o a).seq = t.seq ++ [(o, a)] ∧
    (∀ p, t.rootLe p → o ≤ p → (t.add o a).rootLe p) := by
  induction t with
  | atom b => simp [T.add, T.OK, T.rootLe, T.rootLt, T.first, T.seq]
  | node o' l r ihl ihr =>
    obtain ⟨hl, hr, okl, okr⟩ := h
    by_cases hlt : o < o'
    · obtain ⟨ok', f', s', le'⟩ := ihr okr
      simp only [T.add, hlt, if_true, T.OK, T.first, T.seq, f', s']
      refine ⟨⟨hl, ?_, okl, ok'⟩, trivial, by simp, ?_⟩
      · -- new right child still binds tighter than o'
        cases hr' : r.add o a with
        | atom _ => trivial
        | node o2 l2 r2 =>
          simp only [T.rootLt]
          cases r with
          | atom b => simp [T.add] at hr'; omega
          | node o3 l3 r3 =>
            simp only [T.rootLt] at hr
            have := le' (o' - 1) (by simp [T.rootLe]; omega) (by omega)
            rw [hr'] at this; simp [T.rootLe] at this; omega
      · intro p hp _; simpa [T.rootLe] using hp
    · simp only [T.add, hlt, if_false, T.OK, T.first, T.seq, T.rootLe, T.rootLt]
      refine ⟨⟨by omega, trivial, ⟨hl, hr, okl, okr⟩, trivial⟩, trivial, by simp, ?_⟩
      intro p _ hop; exact hop

end P
