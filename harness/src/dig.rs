//! C16: generated circuit descriptions rendered as `.dig` XML, loaded by the implementation, compared with
//! the Lean model (fed the DOM roxmltree built) and judged against the generating description.
use crate::gen::*;
use crate::imp;
use crate::oracle::*;
use crate::prng::Prng;
use crate::{fnv, Ctx, Finding};
use digital_test_runner::{dig, errors::LoadTestError, verif_hooks, InputValue, ParsedTestCase, Signal, SignalType};
use std::panic::{catch_unwind, AssertUnwindSafe};

#[derive(Clone, Debug)]
pub struct Pin {
    pub kind: &'static str, // In | Clock | Out | And (some other element)
    pub label: Option<String>,
    pub bits: Option<String>,
    pub default_v: Option<String>,
    pub default_z: Option<String>,
    pub has_default: bool,
    /// the `Label` entry is there but its value was deleted (`<entry><string>Label</string></entry>`): the pin has no label
    pub label_key_only: bool,
}

#[derive(Clone, Debug)]
pub struct DTest {
    pub label: Option<String>,
    pub source: String,
    /// the virtual signals this source declares — listed only when the generator wrote a source that parses (a
    /// source that does not parse declares nothing)
    pub declared: Vec<String>,
}

#[derive(Clone, Debug)]
pub struct Circuit {
    pub pins: Vec<Pin>,
    pub tests: Vec<DTest>,
}

fn esc(s: &str) -> String {
    // a carriage return survives XML line-end normalisation only as a character reference (what Digital writes on Windows)
    s.replace('&', "&amp;").replace('<', "&lt;").replace('>', "&gt;").replace('"', "&quot;").replace('\r', "&#13;")
}

const NESTED: &str = "<entry><string>shape</string><shape><pins><entry><string>Label</string><string>WRONG</string></entry><entry><string>Bits</string><int>7</int></entry><entry><string>InDefault</string><value v=\"3\" z=\"true\"/></entry><entry><string>Testdata</string><testData><dataString>WRONG\n</dataString></testData></entry></pins></shape></entry>";

/// character data as a document may hold it: escaped, and now and then with a comment or a processing instruction
/// in it — neither is character data, so the text of the element is still `s`
fn cdata(s: &str, r: &mut Prng) -> String {
    if r.chance(1, 12) && !s.contains('\r') && !s.contains("]]>") {
        // a CDATA section around all or part of the text (how people paste test data by hand): still character data
        let cuts: Vec<usize> = (0..=s.len()).filter(|i| s.is_char_boundary(*i)).collect();
        let (mut a, mut b) = (cuts[r.below(cuts.len())], cuts[r.below(cuts.len())]);
        if r.chance(1, 2) {
            (a, b) = (0, s.len());
        }
        if a > b {
            std::mem::swap(&mut a, &mut b);
        }
        return format!("{}<![CDATA[{}]]>{}", esc(&s[..a]), &s[a..b], esc(&s[b..]));
    }
    if !r.chance(1, 12) {
        return esc(s);
    }
    let cuts: Vec<usize> = (0..=s.len()).filter(|i| s.is_char_boundary(*i)).collect();
    let at = cuts[r.below(cuts.len())];
    let junk = *r.pick(&["<!-- checked by hand -->", "<!---->", "<?keep this?>", "<!-- a --><!-- b -->"]);
    format!("{}{}{}", esc(&s[..at]), junk, esc(&s[at..]))
}

pub fn render(c: &Circuit, r: &mut Prng) -> String {
    let nl = |r: &mut Prng| if r.chance(1, 5) { "" } else { "\n      " };
    let mut s = String::from("<?xml version=\"1.0\" encoding=\"utf-8\"?>\n<circuit>\n  <version>1</version>\n  <attributes/>\n  <visualElements>\n");
    // tests and pins interleaved in a generated order (document order matters)
    let mut items: Vec<(bool, usize)> = (0..c.pins.len()).map(|i| (false, i)).chain((0..c.tests.len()).map(|i| (true, i))).collect();
    // keep relative order of pins and of tests, interleave randomly
    let mut out: Vec<(bool, usize)> = vec![];
    let (mut pi, mut ti) = (0, 0);
    let pins: Vec<usize> = items.iter().filter(|x| !x.0).map(|x| x.1).collect();
    let tests: Vec<usize> = items.iter().filter(|x| x.0).map(|x| x.1).collect();
    while pi < pins.len() || ti < tests.len() {
        if ti >= tests.len() || (pi < pins.len() && r.chance(2, 3)) {
            out.push((false, pins[pi]));
            pi += 1;
        } else {
            out.push((true, tests[ti]));
            ti += 1;
        }
    }
    items = out;
    for (is_test, i) in items {
        s.push_str("    <visualElement>");
        s.push_str(nl(r));
        if is_test {
            let t = &c.tests[i];
            s.push_str("<elementName>Testcase</elementName>");
            s.push_str(nl(r));
            s.push_str("<elementAttributes>");
            if r.chance(1, 12) {
                // an attribute whose VALUE contains entries of its own: they are not attributes of the element
                s.push_str(NESTED);
            }
            if r.chance(1, 12) {
                s.push_str("<entry/>");
            }
            if let Some(l) = &t.label {
                let l = cdata(l, r);
                s.push_str(&format!("{}<entry><string>Label</string><string>{}</string></entry>", nl(r), l));
            }
            let src = cdata(&t.source, r);
            s.push_str(&format!(
                "{}<entry><string>Testdata</string><testData><dataString>{}</dataString></testData></entry>",
                nl(r),
                src
            ));
            s.push_str(nl(r));
            s.push_str("</elementAttributes>");
        } else {
            let p = &c.pins[i];
            if !p.kind.is_empty() {
                s.push_str(&format!("<elementName>{}</elementName>", p.kind));
            } else if r.chance(1, 2) {
                // a name element without any character data names no kind of element either
                s.push_str(*r.pick(&["<elementName/>", "<elementName></elementName>", "<elementName><!-- In --></elementName>"]));
            }
            s.push_str(nl(r));
            s.push_str("<elementAttributes>");
            let mut entries: Vec<String> = vec![];
            if p.label_key_only {
                entries.push("<entry><string>Label</string></entry>".to_string());
            } else if let Some(l) = &p.label {
                entries.push(format!("<entry><string>Label</string><string>{}</string></entry>", cdata(l, r)));
            }
            if let Some(b) = &p.bits {
                entries.push(format!("<entry><string>Bits</string><int>{}</int></entry>", cdata(b, r)));
            }
            if p.has_default {
                let v = p.default_v.as_ref().map(|v| format!(" v=\"{}\"", esc(v))).unwrap_or_default();
                let z = p.default_z.as_ref().map(|z| format!(" z=\"{}\"", esc(z))).unwrap_or_default();
                entries.push(format!("<entry><string>InDefault</string><value{v}{z}/></entry>"));
            }
            if r.chance(1, 3) {
                entries.push("<entry><string>rotation</string><rotation rotation=\"2\"/></entry>".to_string());
            }
            if r.chance(1, 10) {
                entries.push(NESTED.to_string());
            }
            if r.chance(1, 10) {
                // an entry without any element in it says nothing, and hides nothing behind it
                entries.push((*r.pick(&["<entry/>", "<entry></entry>", "<entry> </entry>"])).to_string());
            }
            r.shuffle(&mut entries);
            for e in entries {
                s.push_str(nl(r));
                s.push_str(&e);
            }
            s.push_str(nl(r));
            s.push_str("</elementAttributes>");
        }
        s.push_str(nl(r));
        s.push_str("<pos x=\"300\" y=\"200\"/>\n    </visualElement>\n");
    }
    s.push_str("  </visualElements>\n");
    if r.chance(1, 10) {
        // something that is described like a pin but is no visual element of the circuit: it is not a pin
        let kind = *r.pick(&["In", "Out", "Clock"]);
        s.push_str(&format!(
            "  <template><elementName>{kind}</elementName><elementAttributes><entry><string>Label</string><string>DECOY</string></entry></elementAttributes></template>\n"
        ));
    }
    s.push_str("  <wires/>\n</circuit>\n");
    s
}

#[derive(Clone, Debug, PartialEq)]
pub struct ESig {
    pub name: String,
    pub bits: usize,
    pub typ: char, // I O B
    pub default: Option<i64>, // None = Z (inputs) / irrelevant (outputs)
}

/// the property's reading of a description, written independently of the loader
pub fn expected(c: &Circuit) -> Result<(Vec<ESig>, Vec<(String, String)>), &'static str> {
    let labelled = |p: &Pin| if p.label_key_only { None } else { p.label.as_ref().filter(|l| !l.is_empty()).cloned() };
    let bits = |p: &Pin| p.bits.as_ref().and_then(|b| b.parse::<usize>().ok()).unwrap_or(1);
    let mut sigs: Vec<ESig> = vec![];
    for p in c.pins.iter().filter(|p| p.kind == "In" || p.kind == "Clock") {
        if let Some(name) = labelled(p) {
            let default = if p.has_default && p.default_z.as_deref() == Some("true") {
                None
            } else if p.has_default {
                Some(p.default_v.as_ref().and_then(|v| v.parse::<i64>().ok()).unwrap_or(0))
            } else {
                Some(0)
            };
            sigs.push(ESig { name, bits: bits(p), typ: 'I', default });
        }
    }
    for p in c.pins.iter().filter(|p| p.kind == "Out") {
        if let Some(name) = labelled(p) {
            sigs.push(ESig { name, bits: bits(p), typ: 'O', default: None });
        }
    }
    // tests: every Testcase keeps its label and source verbatim — an empty label is the label "", an empty source is
    // the source "" (which then has no header: the file is refused as a whole)
    let mut tests: Vec<(String, String)> = vec![];
    for t in &c.tests {
        let name = match &t.label {
            None => "(unnamed)".to_string(),
            Some(l) => l.clone(),
        };
        tests.push((name, t.source.clone()));
    }
    // header names
    let mut bidir: Vec<String> = vec![];
    for (ti, (_, src)) in tests.iter().enumerate() {
        // a test may have a column for a virtual signal it declares itself (F22)
        let declared: &[String] = &c.tests[ti].declared;
        // the header: first non-empty line, which must be followed by a line break
        let mut names: Option<Vec<String>> = None;
        let mut rest = src.as_str();
        loop {
            let Some(i) = rest.find('\n') else { break };
            let line = &rest[..i];
            rest = &rest[i + 1..];
            let ns: Vec<String> = line.split(|c| c == ' ' || c == '\t' || c == '\r' || c == '\u{c}').filter(|s| !s.is_empty()).map(|s| s.to_string()).collect();
            if !ns.is_empty() {
                names = Some(ns);
                break;
            }
        }
        let Some(names) = names else { return Err("emptytest") };
        for (i, n) in names.iter().enumerate() {
            if names[..i].contains(n) {
                return Err("emptytest");
            }
        }
        for n in names {
            let is_pin = sigs.iter().any(|s| s.name == n);
            let stripped = n.strip_suffix("_out");
            let stripped_input = stripped.map(|b| sigs.iter().any(|s| s.name == b && s.typ != 'O')).unwrap_or(false);
            if !is_pin && stripped_input {
                let b = stripped.unwrap().to_string();
                if !bidir.contains(&b) {
                    bidir.push(b);
                }
            } else if !is_pin && !declared.contains(&n) {
                return Err("missing");
            }
        }
    }
    for b in bidir {
        if let Some(s) = sigs.iter_mut().find(|s| s.name == b) {
            s.typ = 'B';
        }
    }
    Ok((sigs, tests))
}

fn sig_line(s: &Signal) -> String {
    imp::dump_signals(std::slice::from_ref(s)).trim_matches(|c| c == '[' || c == ']').to_string()
}

fn esig_line(s: &ESig) -> String {
    let d = match (s.typ, s.default) {
        ('O', _) => "-".to_string(),
        (_, Some(n)) => n.to_string(),
        (_, None) => "Z".to_string(),
    };
    format!("{}:{}:{}:{}", hex(&s.name), s.bits, s.typ, d)
}

/// the locations of a parse error returned by `load_test`, as a comment line (the model does not produce it)
fn load_spans(tag: &str, r: &Result<digital_test_runner::TestCase, LoadTestError>) -> Option<String> {
    match r {
        Err(LoadTestError::ParseError(e)) => {
            let v: Vec<String> = e.at.iter().map(|s| format!("({} {})", s.start, s.end)).collect();
            Some(format!("# spans {tag} parse err [{}]", v.join(" ")))
        }
        _ => None,
    }
}

/// C09: "… so the error can always be rendered as a diagnostic" — every label of a parse error returned by `load_test`
/// must be readable in the source text that is attached to that very error
fn load_render_problem(tag: &str, r: &Result<digital_test_runner::TestCase, LoadTestError>) -> Option<String> {
    use miette::Diagnostic;
    let Err(LoadTestError::ParseError(e)) = r else { return None };
    let sc = e.source_code()?;
    for l in e.labels()? {
        // (miette itself may panic on a span behind the end of the text: that is the same failure)
        let readable = catch_unwind(AssertUnwindSafe(|| sc.read_span(l.inner(), 0, 0).is_ok())).unwrap_or(false);
        if !readable {
            let _ = imp::take_panic();
            return Some(format!("# render {tag} the location {}..{} cannot be read in the source attached to the error", l.offset(), l.offset() + l.len()));
        }
    }
    None
}

fn load_line(tag: &str, r: Result<digital_test_runner::TestCase, LoadTestError>) -> String {
    match r {
        Ok(tc) => format!("{tag} ok signals={} {}", imp::dump_signals(&tc.signals), verif_hooks::dump_test_case(&tc)),
        Err(LoadTestError::IndexOutOfBounds { .. }) => format!("{tag} err index"),
        Err(LoadTestError::TestNotFound(_)) => format!("{tag} err notfound"),
        Err(LoadTestError::ParseError(_)) => format!("{tag} err parse"),
        Err(LoadTestError::SignalError(_)) => format!("{tag} err bind"),
    }
}

/// load the document with the implementation; canonical lines
pub fn run_imp(xml: &str, names: &[String]) -> Vec<String> {
    let mut out = vec![];
    let f = match catch_unwind(|| dig::File::parse(xml)) {
        Err(_) => return vec![format!("dig panic {}", imp::take_panic())],
        Ok(Err(e)) => return vec!["dig err".to_string(), format!("# {e}")],
        Ok(Ok(f)) => f,
    };
    let tests: Vec<String> = f.test_cases.iter().map(|t| format!("({} {})", hex(&t.name), hex(&t.source))).collect();
    out.push(format!("dig ok signals={} tests=[{}]", imp::dump_signals(&f.signals), tests.join(" ")));
    for i in 0..=f.test_cases.len() {
        match catch_unwind(AssertUnwindSafe(|| f.load_test(i))) {
            Ok(r) => {
                if let Some(l) = load_spans(&format!("load {i}"), &r) {
                    out.push(l);
                }
                if let Some(l) = load_render_problem(&format!("load {i}"), &r) {
                    out.push(l);
                }
                out.push(load_line(&format!("load {i}"), r))
            }
            Err(_) => out.push(format!("load {i} panic {}", imp::take_panic())),
        }
    }
    for n in names {
        match catch_unwind(AssertUnwindSafe(|| f.load_test_by_name(n))) {
            Ok(r) => out.push(load_line(&format!("byname {}", hex(n)), r)),
            Err(_) => out.push(format!("byname {} panic {}", hex(n), imp::take_panic())),
        }
    }
    out
}

// some labels are deliberately the words the file format itself uses as attribute keys and element names
const PIN_NAMES: &[&str] = &[
    "A", "B", "C", "CLK", "D", "S", "Q", "Y", "C_out", "S_out", "BUS", "ALU-~RESET", "é", "Q2", "Bits", "Label", "InDefault",
    "Testdata", "In", "Out", "string", "D_out",
    // blanks that are NOT among the five the header scanner splits at: part of the name
    "N\u{a0}B", "\u{3000}W", "L\u{2028}S", "K\u{85}",
    // words of the test language (the header has its own scanner), names that differ in letter case or extend one another
    "end", "loop", "X", "a", "AB", "true", "A_out_out",
];

pub fn gen_circuit(r: &mut Prng) -> Circuit {
    // one circuit in sixty is big: hundreds of pins, dozens of tests
    let big = r.chance(1, 60);
    let n = if big { 70 + r.below(230) } else { r.below(6) + 1 };
    let mut names: Vec<String> = PIN_NAMES.iter().map(|s| s.to_string()).collect();
    if big {
        names.extend((0..n).map(|i| format!("P{i}")));
    }
    r.shuffle(&mut names);
    let mut pins = vec![];
    for name in names.iter().take(n) {
        // "" = an element without an `elementName` of its own: it is no pin, whatever its attributes say
        let kind = *r.pick(&["In", "In", "In", "Clock", "Out", "Out", "Out", "And", "Probe", ""]);
        let label = match r.below(12) {
            0 => None,
            1 => Some(String::new()),
            _ => Some(name.to_string()),
        };
        let bits = match r.below(8) {
            0..=2 => None,
            3 => Some((*r.pick(&["x", "", "-1", "+7", " 4", "99999999999999999999999"])).to_string()),
            4 => Some((*r.pick(&["65", "128", "255", "256", "257", "300", "65535", "65536", "4294967296", "18446744073709551615", "18446744073709551616", "007"])).to_string()),
            _ => Some((*r.pick(&["1", "2", "4", "8", "16", "32", "63", "64"])).to_string()),
        };
        let has_default = r.chance(1, 2);
        let default_v = match r.below(6) {
            0 => None,
            1 => Some((*r.pick(&["x", "", "-5", "+3", "9223372036854775807", "9223372036854775808", "-9223372036854775808"])).to_string()),
            _ => Some(r.below(20).to_string()),
        };
        let default_z = match r.below(5) {
            0 => Some("true".to_string()),
            1 => None,
            2 => Some("TRUE".to_string()),
            _ => Some("false".to_string()),
        };
        let label_key_only = r.chance(1, 25);
        pins.push(Pin { kind, label, bits, default_v, default_z, has_default, label_key_only });
    }
    if r.chance(1, 10) {
        // two pins with the same label
        if let Some(p) = pins.first().cloned() {
            pins.push(p);
        }
    }
    // tests whose headers are built from the pins (mostly)
    let ins: Vec<String> = pins.iter().filter(|p| p.kind == "In" || p.kind == "Clock").filter_map(|p| p.label.clone()).filter(|l| !l.is_empty()).collect();
    let outs: Vec<String> = pins.iter().filter(|p| p.kind == "Out").filter_map(|p| p.label.clone()).filter(|l| !l.is_empty()).collect();
    let nt = if big { 5 + r.below(36) } else { r.below(4) };
    let mut tests = vec![];
    for k in 0..nt {
        let mut hdr: Vec<String> = vec![];
        for i in &ins {
            if r.chance(3, 4) {
                hdr.push(i.clone());
            }
            if r.chance(1, 4) {
                hdr.push(format!("{i}_out"));
            }
        }
        for o in &outs {
            if r.chance(3, 4) {
                hdr.push(o.clone());
            }
            if r.chance(1, 12) {
                hdr.push(format!("{o}_out"));
            }
        }
        if r.chance(1, 12) {
            hdr.push("NOPIN".into());
        }
        hdr.dedup();
        let mut uniq: Vec<String> = vec![];
        for h in hdr {
            if !uniq.contains(&h) {
                uniq.push(h);
            }
        }
        let mut hdr = uniq;
        // a column for a virtual signal (F22): 1 = declared by this test, in a source that parses: the column is fine;
        // 2 = not declared: the name matches no pin; 3 = declared, but the source does not parse: it declares nothing
        let virt_mode = if !hdr.is_empty() && r.chance(1, 5) { 1 + r.below(3) } else { 0 };
        // two names only, so that different tests of one document use the same one: what one test declares excuses nothing
        // in another test
        let virt_name = format!("VIRT{}", r.below(2));
        let _ = k;
        let mut declared = vec![];
        if virt_mode > 0 && !ins.contains(&virt_name) && !outs.contains(&virt_name) {
            let at = r.below(hdr.len() + 1);
            hdr.insert(at, virt_name.clone());
            let mut src = String::new();
            for _ in 0..r.below(3) {
                src.push('\n');
            }
            src.push_str(&hdr.join(" "));
            src.push('\n');
            let decl = format!("declare {virt_name} = {};\n", *r.pick(&["0", "1 + 1", "!0", "(2 * 3)"]));
            if virt_mode != 2 && r.chance(1, 2) {
                src.push_str(&decl);
            }
            for _ in 0..r.below(3) {
                let row: Vec<&str> = hdr.iter().map(|_| *r.pick(&["0", "1", "X", "Z", "(1+1)"])).collect();
                src.push_str(&row.join(" "));
                src.push('\n');
            }
            if virt_mode != 2 && !src.contains("declare ") {
                src.push_str(&decl);
            }
            if virt_mode == 1 {
                declared.push(virt_name.clone());
            }
            if virt_mode == 3 {
                src.push_str(*r.pick(&["let a = ;\n", "loop(i,2)\n", "end loop\n", "1 2 3 4 5 6 7 8 9 10 11 12 13 14 15 16 17 18 19 20 21 22 23 24 25 26 27 28 29 30 31 32 33\n(\n"]));
            }
            if r.chance(1, 4) {
                src.push_str(*r.pick(&["\n\n", "  ", " \n", "\t\t\n"]));
            }
            if r.chance(1, 8) {
                src = src.replace('\n', "\r\n");
            }
            let label = if r.chance(1, 6) { None } else { Some(format!("virtual {k}")) };
            tests.push(DTest { label, source: src, declared });
            continue;
        }
        let mut src = String::new();
        for _ in 0..r.below(3) {
            src.push('\n');
        }
        src.push_str(&hdr.join(" "));
        if !(hdr.is_empty() && r.chance(1, 2)) && !r.chance(1, 15) {
            src.push('\n');
        }
        let rows = r.below(3);
        for _ in 0..rows {
            let row: Vec<&str> = hdr.iter().map(|_| *r.pick(&["0", "1", "X", "Z", "(1+1)", "3 & 1"])).collect();
            src.push_str(&row.join(" "));
            src.push('\n');
        }
        if r.chance(1, 10) {
            src.push_str("loop(i,2)\n");
        } else if r.chance(1, 10) {
            // cut off inside a block or a statement, without a final newline
            src.push_str(*r.pick(&["loop(i,2)", "while(1)\n", "let a = 1", "let é = ", "loop(i,2)\nend"]));
        }
        if r.chance(1, 4) {
            // blank space at the very end of the text (the end-of-input location of an error lies behind it)
            src.push_str(*r.pick(&["\n\n", "  ", " \n", "\t\t\n", "\n \n\n"]));
        }
        if r.chance(1, 20) {
            src = String::new();
        }
        if r.chance(1, 8) {
            // CRLF line ends
            src = src.replace('\n', "\r\n");
        }
        let label = match r.below(8) {
            0 => None,
            1 => Some(String::new()),
            2 => Some((*r.pick(&["same", "same", "same ", " same", "same\t", "Same", "SAME"])).to_string()),
            3 => Some((*r.pick(&["a<b&c", "Testdata", "Label", "dataString"])).to_string()),
            _ => Some(format!("test {k}")),
        };
        tests.push(DTest { label, source: src, declared: vec![] });
    }
    Circuit { pins, tests }
}

fn corrupt(xml: &str, r: &mut Prng) -> String {
    let mut cs: Vec<char> = xml.chars().collect();
    if cs.is_empty() {
        return String::new();
    }
    match r.below(6) {
        0 => {
            let i = r.below(cs.len());
            cs.truncate(i);
        }
        1 => {
            let i = r.below(cs.len());
            cs.remove(i);
        }
        2 => {
            let i = r.below(cs.len());
            cs.insert(i, *r.pick(&['<', '>', '&', '"', 'x', '/', '\u{0}', 'é']));
        }
        3 => {
            let s: String = cs.iter().collect();
            let s = s.replacen("elementName", *r.pick(&["elementname", "entry", "string"]), 1);
            return s;
        }
        4 => {
            let s: String = cs.iter().collect();
            let s = s.replacen("<string>", "<!-- c --><string>", 1 + r.below(2));
            return s;
        }
        _ => {
            let s: String = cs.iter().collect();
            let s = s.replacen("</entry>", "<extra/></entry>", 1);
            return s;
        }
    }
    cs.into_iter().collect()
}

/// the crate the harness is built against: the path dependency of the harness' own Cargo.toml
fn crate_dir() -> Option<String> {
    let toml = include_str!("../Cargo.toml");
    let i = toml.find("digital_test_runner")?;
    let rest = &toml[i..];
    let j = rest.find("path = \"")? + 8;
    let k = rest[j..].find('"')?;
    Some(rest[j..j + k].to_string())
}

/// The `.dig` documents that come with the crate (`tests/data/*.dig`, written by Digital itself): loaded by the
/// implementation and by the model (fed the DOM roxmltree built), every test loaded by index and by name — real documents
/// besides the generated ones.
fn real_documents(ctx: &mut Ctx, suite: &str) {
    let Some(dir) = crate_dir() else { return };
    let Ok(rd) = std::fs::read_dir(format!("{dir}/tests/data")) else { return };
    let mut files: Vec<std::path::PathBuf> = rd.filter_map(|e| e.ok().map(|e| e.path())).filter(|p| p.extension().map(|x| x == "dig").unwrap_or(false)).collect();
    files.sort();
    for f in files {
        let Ok(xml) = std::fs::read_to_string(&f) else { continue };
        ctx.tick(&format!("{}", f.display()));
        // the labels that occur in the document (as written), plus two names no test has
        let mut names: Vec<String> = vec!["(unnamed)".into(), "no such test".into()];
        let mut rest = xml.as_str();
        while let Some(i) = rest.find("<string>Label</string>") {
            rest = &rest[i + 22..];
            if let (Some(a), Some(b)) = (rest.find("<string>"), rest.find("</string>")) {
                if a < b && b - a < 200 {
                    names.push(rest[a + 8..b].to_string());
                }
            }
        }
        names.sort();
        names.dedup();
        let names: Vec<String> = names.into_iter().filter(|n| !n.is_empty() && !n.contains('&') && !n.contains('<')).collect();
        let il = run_imp(&xml, &names);
        ctx.report.evaluations += 1;
        ctx.report.bump("real-document");
        ctx.report.distinct.insert(fnv(&xml));
        if il.iter().any(|l| l.contains(" panic")) {
            push(ctx, "oracle", suite, 0, format!("loading {} panicked: {:?}", f.display(), il.iter().find(|l| l.contains(" panic"))), &xml, &il, &[]);
            continue;
        }
        if let Ok(dump) = verif_hooks::dom_dump(&xml) {
            let hn: Vec<String> = names.iter().map(|n| hex(n)).collect();
            let m = ctx.model.ask(&format!("dig {dump} | {}", hn.join(" ")));
            if significant(&il) != significant(&m) {
                push(ctx, "model", suite, 0, format!("{}: {}", f.display(), crate::suites::first_diff_pub(&significant(&il), &significant(&m))), &xml, &il, &m);
            }
        } else if il[0] != "dig err" {
            push(ctx, "oracle", suite, 0, format!("{}: roxmltree rejects the text but the loader returned a file", f.display()), &xml, &il, &[]);
        }
    }
}

pub fn suite_dig(ctx: &mut Ctx, suite: &str, n: u64) {
    if ctx.only_suite.as_deref().map(|s| s != suite).unwrap_or(false) {
        return;
    }
    if ctx.part == 0 && ctx.only_case.is_none() {
        real_documents(ctx, suite);
    }
    for idx in 0..n {
        let cs = crate::suites::case_seed_pub(ctx.seed, suite, idx);
        if ctx.only_case.map(|c| c != cs).unwrap_or(false) {
            continue;
        }
        if ctx.too_many() {
            break;
        }
        let mut r = Prng::new(cs);
        let circuit = gen_circuit(&mut r);
        let mut xml = render(&circuit, &mut r);
        let corrupted = r.chance(1, 5);
        if corrupted {
            xml = corrupt(&xml, &mut r);
        }
        ctx.tick(&xml);
        let mut names: Vec<String> = circuit.tests.iter().filter_map(|t| t.label.clone()).collect();
        // labels are compared verbatim: variants with blanks around them are other names
        // … and so are variants in another letter case, prefixes and extensions
        let variants: Vec<String> = names
            .iter()
            .flat_map(|n| {
                let mut cut = n.clone();
                cut.pop();
                vec![format!("{n} "), format!(" {n}"), n.trim().to_string(), n.to_uppercase(), n.to_lowercase(), cut, format!("{n}0")]
            })
            .collect();
        names.extend(variants);
        names.push("(unnamed)".into());
        names.push("no such test".into());
        names.sort();
        names.dedup();
        let names: Vec<String> = names.into_iter().filter(|n| !n.is_empty()).collect();
        let il = run_imp(&xml, &names);
        ctx.report.evaluations += 1;
        let key = fnv(&xml);
        ctx.report.distinct.insert(key);
        ctx.report.bump(if corrupted { "corrupted" } else { "well-formed" });
        ctx.report.bump(if il[0].starts_with("dig ok") { "loaded" } else if il[0].starts_with("dig err") { "dig-error" } else { "panic" });
        if il[0].starts_with("dig ok") {
            ctx.report.nontrivial.insert(key);
        }
        if ctx.report.samples.len() < 2 && il[0].starts_with("dig ok") && !circuit.tests.is_empty() {
            ctx.report.samples.push(xml.clone());
        }
        // loading is a function of the text: a second load gives the same answer (C15)
        let il2 = run_imp(&xml, &names);
        if significant(&il2) != significant(&il) {
            push(ctx, "oracle", suite, cs, format!("loading the same document twice gives different results: {}", crate::suites::first_diff_pub(&il, &il2)), &xml, &il, &il2);
            continue;
        }
        if il.iter().any(|l| l.contains(" panic")) {
            push(ctx, "oracle", suite, cs, format!("loading panicked: {:?}", il.iter().find(|l| l.contains(" panic"))), &xml, &il, &[]);
            continue;
        }
        // model, fed the DOM roxmltree built
        let mut m: Vec<String> = vec![];
        if let Ok(dump) = verif_hooks::dom_dump(&xml) {
            let hn: Vec<String> = names.iter().map(|n| hex(n)).collect();
            m = ctx.model.ask(&format!("dig {dump} | {}", hn.join(" ")));
            if significant(&il) != significant(&m) {
                push(ctx, "model", suite, cs, crate::suites::first_diff_pub(&significant(&il), &significant(&m)), &xml, &il, &m);
            }
        } else if il[0] != "dig err" {
            push(ctx, "oracle", suite, cs, "roxmltree rejects the text but the loader returned a file".into(), &xml, &il, &[]);
        }
        // the generating description
        if !corrupted {
            match expected(&circuit) {
                Err(_) => {
                    if il[0].starts_with("dig ok") {
                        push(ctx, "oracle", suite, cs, "the description has a test without a usable header or a header name matching no pin, but a file was returned".into(), &xml, &il, &m);
                    }
                }
                Ok((sigs, tests)) => {
                    let want_sigs = format!("[{}]", sigs.iter().map(esig_line).collect::<Vec<_>>().join(" "));
                    let want_tests: Vec<String> = tests.iter().map(|(n, s)| format!("({} {})", hex(n), hex(s))).collect();
                    let want = format!("dig ok signals={want_sigs} tests=[{}]", want_tests.join(" "));
                    // the lines the model knows (without the comment lines)
                    let il_all = il.clone();
                    let il: Vec<String> = significant(&il_all);
                    if il[0] != want {
                        push(ctx, "oracle", suite, cs, format!("the loaded interface is not the described one:\n got  {}\n want {want}", il[0]), &xml, &il, &m);
                    } else {
                        // load_test(i) == parse(source i).with_signals(file signals); by name: the first with that label
                        let file_sigs: Vec<Signal> = sigs
                            .iter()
                            .map(|s| Signal {
                                name: s.name.clone(),
                                bits: s.bits,
                                typ: match s.typ {
                                    'O' => SignalType::Output,
                                    'B' => SignalType::Bidirectional { default: s.default.map(InputValue::Value).unwrap_or(InputValue::Z) },
                                    _ => SignalType::Input { default: s.default.map(InputValue::Value).unwrap_or(InputValue::Z) },
                                },
                            })
                            .collect();
                        let direct = |src: &str, tag: &str| -> String {
                            match src.parse::<ParsedTestCase>() {
                                Err(_) => format!("{tag} err parse"),
                                Ok(p) => match p.with_signals(file_sigs.clone()) {
                                    Err(_) => format!("{tag} err bind"),
                                    Ok(tc) => format!("{tag} ok signals={} {}", imp::dump_signals(&tc.signals), verif_hooks::dump_test_case(&tc)),
                                },
                            }
                        };
                        if let Some(l) = il_all.iter().find(|l| l.starts_with("# render ")) {
                            push(ctx, "oracle", suite, cs, format!("a parse error of load_test cannot be rendered: {l}"), &xml, &il, &m);
                        }
                        for (i, (_, src)) in tests.iter().enumerate() {
                            // a parse error of load_test points into the test's own source text (C09), and is the
                            // error parsing that text gives
                            let tag = format!("# spans load {i} ");
                            if let Some(l) = il_all.iter().find(|l| l.starts_with(&tag)) {
                                let l = &l[tag.len()..];
                                if let Some(p) = crate::suites::span_problem_pub(src, l) {
                                    push(ctx, "oracle", suite, cs, format!("parse error of load_test({i}): {p}"), &xml, &il, &m);
                                }
                                let (dl, _) = imp::parse_line(src);
                                if dl != l {
                                    push(ctx, "oracle", suite, cs, format!("load_test({i}) reports {l} but parsing source {i} reports {dl}"), &xml, &il, &m);
                                }
                            }
                            let want = direct(src, &format!("load {i}"));
                            if il.get(1 + i) != Some(&want) {
                                push(ctx, "oracle", suite, cs, format!("load_test({i}) is not 'parse source {i}, bind to the file's signals':\n got  {:?}\n want {want}", il.get(1 + i)), &xml, &il, &m);
                            }
                        }
                        if il.get(1 + tests.len()) != Some(&format!("load {} err index", tests.len())) {
                            push(ctx, "oracle", suite, cs, "an out-of-range index is not an error".into(), &xml, &il, &m);
                        }
                        for n in &names {
                            let tag = format!("byname {}", hex(n));
                            let want = match tests.iter().find(|(l, _)| l == n) {
                                Some((_, src)) => direct(src, &tag),
                                None => format!("{tag} err notfound"),
                            };
                            if !il.contains(&want) {
                                push(ctx, "oracle", suite, cs, format!("load_test_by_name({n:?}) is not the first test with that label / an error for an unknown name: want {want}"), &xml, &il, &m);
                            }
                        }
                    }
                }
            }
        }
        let _ = sig_line;
    }
}

fn push(ctx: &mut Ctx, kind: &'static str, suite: &str, cs: u64, what: String, xml: &str, il: &[String], m: &[String]) {
    if ctx.too_many() {
        return;
    }
    ctx.report.findings.push(Finding { kind, suite: suite.into(), case_seed: cs, what, case_text: xml.to_string(), imp: il.to_vec(), model: m.to_vec() });
}
