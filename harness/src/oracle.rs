//! Property oracles that are evaluated directly on what the implementation did (no model involved),
//! plus the projections that select the property-relevant part of a run's canonical lines.
use crate::gen::*;
use crate::imp::{Resp, Val};
use std::collections::HashMap;

// ---------------------------------------------------------------------------------------------
// line helpers

pub fn significant(lines: &[String]) -> Vec<String> {
    lines
        .iter()
        .filter(|l| !l.starts_with("# "))
        .map(|l| {
            // panic messages are not compared, only the fact
            if let Some(i) = l.find(" panic") {
                l[..i + 6].to_string()
            } else {
                l.clone()
            }
        })
        .collect()
}

pub fn field<'a>(line: &'a str, key: &str) -> Option<&'a str> {
    let pat = format!(" {key}=");
    let i = line.find(&pat)? + pat.len();
    let rest = &line[i..];
    Some(rest.split(' ').next().unwrap_or(""))
}

pub fn list_items(f: &str) -> Vec<&str> {
    let inner = f.trim_start_matches('[').trim_end_matches(']');
    if inner.is_empty() {
        vec![]
    } else {
        inner.split(',').collect()
    }
}

/// `name=value/changed` → (name, value, changed)
pub fn in_entry(s: &str) -> (&str, &str, bool) {
    let (n, rest) = s.split_once('=').unwrap_or((s, ""));
    let (v, c) = rest.rsplit_once('/').unwrap_or((rest, "0"));
    (n, v, c == "1")
}

/// `name:out:exp:flags` → (name, out, exp, flags)
pub fn out_entry(s: &str) -> (&str, &str, &str, &str) {
    let p: Vec<&str> = s.split(':').collect();
    (p.first().copied().unwrap_or(""), p.get(1).copied().unwrap_or(""), p.get(2).copied().unwrap_or(""), p.get(3).copied().unwrap_or(""))
}

pub fn words(line: &str) -> Vec<&str> {
    line.split(' ').collect()
}

/// kind of an item line: row / err / none / cap / panic / fuel
pub fn item_kind(line: &str) -> &str {
    words(line).get(2).copied().unwrap_or("")
}

/// the property-relevant projection of a run's lines
pub fn project(prop: &str, lines: &[String]) -> Vec<String> {
    let mut out = vec![];
    for l in significant(lines) {
        let w = words(&l);
        let head = w[0];
        match head {
            "parse" => match prop {
                "C08" | "C12" | "C20" | "C19" | "C15" => {
                    // the AST (with line numbers); spans and side tables only where the property speaks of them
                    if w.get(1) == Some(&"ok") {
                        let stmts = field(&l, "stmts").map(|_| {
                            let i = l.find(" stmts=").unwrap();
                            let j = l.find(" sigspans=").unwrap_or(l.len());
                            l[i..j].to_string()
                        });
                        let sigs = field(&l, "signals").unwrap_or("");
                        let i = l.find(" virt=").unwrap_or(l.len());
                        // virtual signals: names and expressions without spans
                        let virt = strip_spans(&l[i..]);
                        let stmts = stmts.unwrap_or_default();
                        // C20: the tree without the line numbers (they shift with the layout)
                        let stmts = if prop == "C20" { strip_row_lines(&stmts) } else { stmts };
                        out.push(format!("parse ok signals={sigs}{stmts}{virt}"));
                    } else {
                        out.push(format!("parse {}", w.get(1).unwrap_or(&"")));
                    }
                }
                "C09" | "C10" | "C11" => out.push(format!("parse {}", w.get(1).unwrap_or(&""))),
                _ => out.push(format!("parse {}", w.get(1).unwrap_or(&""))),
            },
            "bind" => match prop {
                "C06" | "C15" | "C11" => {
                    // signal order is observable through TestCase.signals
                    out.push(format!("bind {} {}", w.get(1).unwrap_or(&""), field(&l, "signals").unwrap_or("")))
                }
                _ => out.push(format!("bind {}", w.get(1).unwrap_or(&""))),
            },
            "ctor" => out.push(l.clone()),
            "static" => out.push(l.clone()),
            "call" => match prop {
                "C02" | "C05" | "C13" | "C15" => out.push(l.clone()),
                "C04" | "C01" | "C07" => {
                    // the vector the device receives, without changed flags
                    let ins: Vec<String> = list_items(field(&l, "in").unwrap_or("[]"))
                        .iter()
                        .map(|e| {
                            let (n, v, _) = in_entry(e);
                            format!("{n}={v}")
                        })
                        .collect();
                    out.push(format!("call in=[{}]", ins.join(",")))
                }
                _ => {}
            },
            "item" | "sitem" => {
                let k = w.get(1).copied().unwrap_or("");
                let kind = item_kind(&l);
                if kind != "row" {
                    match prop {
                        // error classes matter where the property speaks about them
                        "C13" | "C02" | "C15" => out.push(l.clone()),
                        _ => out.push(format!("{head} {k} {kind}")),
                    }
                    continue;
                }
                let line = field(&l, "line").unwrap_or("");
                let ins = list_items(field(&l, "in").unwrap_or("[]"));
                let outs = list_items(field(&l, "out").unwrap_or("[]"));
                let vars = field(&l, "vars").unwrap_or("");
                let in_vals: Vec<String> = ins
                    .iter()
                    .map(|e| {
                        let (n, v, _) = in_entry(e);
                        format!("{n}={v}")
                    })
                    .collect();
                let exp_vals: Vec<String> = outs
                    .iter()
                    .map(|e| {
                        let (n, _, x, _) = out_entry(e);
                        format!("{n}:{x}")
                    })
                    .collect();
                let s = match prop {
                    // C01 speaks about the environment a row is evaluated in ("everything bound inside a loop disappears when the loop
                    // ends, uncovering any outer binding it shadowed"): `vars()` is its public face
                    "C01" => format!("line={line} in=[{}] exp=[{}] vars={vars}", in_vals.join(","), exp_vals.join(",")),
                    "C05" | "C07" => format!("line={line} in=[{}] exp=[{}]", in_vals.join(","), exp_vals.join(",")),
                    "C04" => format!("in=[{}]", in_vals.join(",")),
                    "C02" => format!("in={} outs={}", field(&l, "in").unwrap_or(""), outs.len()),
                    "C03" | "C14" | "C08" => format!("out={}", field(&l, "out").unwrap_or("")),
                    "C06" => format!("in={} exp=[{}]", field(&l, "in").unwrap_or(""), exp_vals.join(",")),
                    "C18" => format!("vars={vars}"),
                    "C19" => format!("line={line}"),
                    "C20" => {
                        // everything but the line
                        let i = l.find(" in=").unwrap_or(0);
                        l[i..].to_string()
                    }
                    "C09" | "C10" | "C11" | "C12" => String::new(),
                    _ => {
                        let i = l.find(" line=").unwrap_or(0);
                        l[i..].to_string()
                    }
                };
                if head == "sitem" {
                    let i = l.find(" line=").unwrap_or(0);
                    out.push(format!("{head} {k} row{}", &l[i..]));
                } else {
                    out.push(format!("{head} {k} row {s}"));
                }
            }
            _ => out.push(l.clone()),
        }
    }
    out
}

/// `(row 12 …` → `(row …`
pub fn strip_row_lines(dump: &str) -> String {
    let mut out = String::new();
    let mut rest = dump;
    while let Some(i) = rest.find("(row ") {
        out.push_str(&rest[..i + 5]);
        rest = &rest[i + 5..];
        let j = rest.find(|c: char| !c.is_ascii_digit()).unwrap_or(rest.len());
        rest = &rest[j..];
    }
    out.push_str(rest);
    out
}

/// `(name start end expr)` → `(name expr)` in a ` virt=[…]` tail
fn strip_spans(s: &str) -> String {
    // entries look like `(h56 100 114 (un neg (num 3)))`
    let mut out = String::new();
    let mut it = s.split(' ').peekable();
    while let Some(tok) = it.next() {
        if (tok.starts_with("(h") || tok.starts_with("virt=[(h")) && it.peek().map(|t| t.chars().all(|c| c.is_ascii_digit())).unwrap_or(false) {
            out.push_str(tok);
            it.next();
            it.next();
        } else {
            out.push_str(tok);
        }
        out.push(' ');
    }
    out.trim_end().to_string()
}

// ---------------------------------------------------------------------------------------------
// reference evaluator over mathematical integers (the operator clauses of C08 / C14)

#[derive(Debug, Clone, PartialEq)]
pub enum RefErr {
    DivZero,
    Unbound(String),
    NotNumber(String),
    Random,
    Unsupported,
}

fn wrap(v: i128) -> i64 {
    // two's-complement reduction modulo 2^64
    let m: i128 = 1i128 << 64;
    let r = v.rem_euclid(m);
    if r >= (1i128 << 63) {
        (r - m) as i64
    } else {
        r as i64
    }
}

pub fn ref_binop(o: &str, l: i64, r: i64) -> Result<i64, RefErr> {
    let (a, b) = (l as i128, r as i128);
    Ok(match o {
        "eq" => (a == b) as i64,
        "ne" => (a != b) as i64,
        "gt" => (a > b) as i64,
        "lt" => (a < b) as i64,
        "ge" => (a >= b) as i64,
        "le" => (a <= b) as i64,
        "or" => l | r,
        "xor" => l ^ r,
        "and" => l & r,
        "shl" => {
            let k = (r as u64 & 63) as u32; // the low six bits of the count
            wrap(a * (1i128 << k))
        }
        "shr" => {
            let k = (r as u64 & 63) as u32;
            a.div_euclid(1i128 << k) as i64 // arithmetic: floor division by 2^k
        }
        "add" => wrap(a + b),
        "sub" => wrap(a - b),
        "mul" => wrap(a * b),
        "div" => {
            if b == 0 {
                return Err(RefErr::DivZero);
            }
            wrap(a / b) // i128 division truncates toward zero
        }
        "rem" => {
            if b == 0 {
                return Err(RefErr::DivZero);
            }
            wrap(a % b)
        }
        _ => return Err(RefErr::Unsupported),
    })
}

pub fn ref_unop(o: &str, v: i64) -> i64 {
    match o {
        "neg" => wrap(-(v as i128)),
        "lnot" => (v == 0) as i64,
        _ => wrap(-(v as i128) - 1),
    }
}

pub fn ref_eval(e: &GExpr, get: &dyn Fn(&str) -> Option<Result<i64, String>>) -> Result<i64, RefErr> {
    match e {
        GExpr::Num(n) => Ok(*n),
        GExpr::Var(s) => match get(s) {
            None => Err(RefErr::Unbound(s.clone())),
            Some(Ok(n)) => Ok(n),
            Some(Err(_)) => Err(RefErr::NotNumber(s.clone())),
        },
        GExpr::Un(o, e) => Ok(ref_unop(o, ref_eval(e, get)?)),
        GExpr::Bin(o, l, r) => {
            let a = ref_eval(l, get)?;
            let b = ref_eval(r, get)?;
            ref_binop(o, a, b)
        }
        GExpr::Call(f, args) => match (f.as_str(), args.as_slice()) {
            ("ite", [c, a, b]) => {
                if ref_eval(c, get)? != 0 {
                    ref_eval(a, get)
                } else {
                    ref_eval(b, get)
                }
            }
            ("random", _) => Err(RefErr::Random),
            _ => Err(RefErr::Unsupported),
        },
    }
}

pub fn mask_ref(bits: usize, n: i64) -> i64 {
    if bits >= 64 {
        n
    } else {
        ((n as i128).rem_euclid(1i128 << bits)) as i64
    }
}

// ---------------------------------------------------------------------------------------------
// trace oracles

pub fn hex_name(s: &str) -> String {
    hex(s)
}

/// C02 — protocol: one call per item, carrying exactly the row's inputs; defaults first; quiet after None
pub fn oracle_c02(case: &Case, lines: &[String]) -> Result<(), String> {
    let ls: Vec<String> = significant(lines).into_iter().filter(|l| !l.starts_with("rng ")).collect();
    let mut i = 0;
    // skip parse / bind
    while i < ls.len() && (ls[i].starts_with("parse") || ls[i].starts_with("bind")) {
        i += 1;
    }
    if i >= ls.len() {
        return Ok(());
    }
    // constructor: exactly one rw call with every input-capable signal at its default, unchanged
    if !ls[i].starts_with("call rw ") {
        return Err(format!("constructor made no output-reading call first: {}", ls[i]));
    }
    let want: Vec<String> = case
        .sigs
        .iter()
        .filter(|s| s.is_input())
        .map(|s| format!("{}={}/0", hex(&s.name), s.default.map(|n| n.to_string()).unwrap_or("Z".into())))
        .collect();
    let got = field(&ls[i], "in").unwrap_or("");
    if got != format!("[{}]", want.join(",")) {
        return Err(format!("constructor call does not carry the defaults: {got} vs {want:?}"));
    }
    i += 1;
    if i >= ls.len() || !ls[i].starts_with("ctor") {
        return Err("more than one call (or none) before the constructor returned".into());
    }
    if !ls[i].starts_with("ctor ok") {
        if i + 1 != ls.len() {
            return Err("activity after a failed constructor".into());
        }
        return Ok(());
    }
    i += 1;
    // items
    while i < ls.len() {
        let mut calls = vec![];
        while i < ls.len() && ls[i].starts_with("call ") {
            calls.push(ls[i].clone());
            i += 1;
        }
        if i >= ls.len() {
            return Err("calls not followed by an item".into());
        }
        let item = &ls[i];
        let kind = item_kind(item);
        match kind {
            "row" => {
                if calls.len() != 1 {
                    return Err(format!("{} driver calls for one yielded row: {item}", calls.len()));
                }
                let cin = field(&calls[0], "in").unwrap_or("");
                let rin = field(item, "in").unwrap_or("");
                if cin != rin {
                    return Err(format!("call inputs differ from the row's inputs: {cin} vs {rin}"));
                }
                let outs = list_items(field(item, "out").unwrap_or("[]"));
                if case.own_wo {
                    let wo = calls[0].starts_with("call wo ");
                    if wo && !outs.is_empty() {
                        return Err(format!("write-only call but the row has outputs: {item}"));
                    }
                }
            }
            "err" => {
                let driver = item.contains(" err driver:");
                if calls.len() > 1 || (driver && calls.len() != 1) {
                    return Err(format!("{} driver calls for an error item: {item}", calls.len()));
                }
            }
            "none" => {
                if !calls.is_empty() {
                    return Err("a driver call was made by the next() that returned None".into());
                }
                if item.contains("NOT-STICKY") {
                    return Err("next() after None returned something or called the driver".into());
                }
            }
            "panic" | "cap" | "fuel" => {}
            _ => return Err(format!("unexpected line {item}")),
        }
        i += 1;
    }
    Ok(())
}

fn val_str(v: &Val) -> String {
    match v {
        Val::N(n) => n.to_string(),
        Val::Z => "Z".into(),
        Val::X => "X".into(),
    }
}

/// the rw answers in call order: (index of the call among all calls, answer)
fn answers_by_item(lines: &[String], script: &[Resp]) -> Vec<(usize, Option<Resp>)> {
    // for every item line index: the script entry of the call that precedes it (if any)
    let ls = significant(lines);
    let mut call_no = 0usize;
    let mut last: Option<usize> = None;
    let mut out = vec![];
    for (li, l) in ls.iter().enumerate() {
        if l.starts_with("call ") {
            last = Some(call_no);
            call_no += 1;
        } else if l.starts_with("item ") {
            out.push((li, last.and_then(|c| script.get(c).cloned())));
            last = None;
        }
    }
    out
}

/// C03 (and the attribution clause of C13) — outputs carry what the driver returned for that very
/// signal in that very call; the verdict flags follow the X/Z rules
pub fn oracle_c03(case: &Case, lines: &[String], script: &[Resp], declared: &[String]) -> Result<(), String> {
    let ls = significant(lines);
    for (li, resp) in answers_by_item(lines, script) {
        let item = &ls[li];
        if item_kind(item) != "row" {
            continue;
        }
        let outs = list_items(field(item, "out").unwrap_or("[]"));
        if outs.is_empty() {
            continue;
        }
        let Some(Resp::Ok(ans)) = resp else {
            return Err(format!("row with outputs but no successful call: {item}"));
        };
        for e in outs {
            let (name, out, exp, flags) = out_entry(e);
            let is_virtual = declared.iter().any(|d| hex(d) == name);
            if !is_virtual {
                // value the answer carries for this signal (the layout has no duplicates unless a
                // fault plan deviates; then the row is an error item and we never get here)
                // — unless the first answer, which fixes the layout, did not supply the signal: then it
                // is reported as unknown
                let sig = case.sigs.iter().find(|s| hex(&s.name) == name);
                let in_first = match script.first() {
                    Some(Resp::Ok(first)) => first.iter().any(|(s, _)| Some(s) == sig),
                    _ => false,
                };
                let want = if in_first {
                    ans.iter().find(|(s, _)| Some(s) == sig).map(|(_, v)| val_str(v)).unwrap_or("X".to_string())
                } else {
                    "X".to_string()
                };
                if out != want {
                    return Err(format!("output of {name} is {out} but the driver returned {want} for it in that call: {item}"));
                }
            }
            let pass = exp == "X" || (exp == "Z" && out == "Z") || (exp != "Z" && exp != "X" && out == exp);
            let want_flags = format!("{}{}{}", if pass { "p" } else { "f" }, if exp != "X" { "c" } else { "u" }, if pass { "-" } else { "F" });
            if flags != want_flags {
                return Err(format!("verdict flags {flags} for expected {exp} / output {out}, should be {want_flags}: {item}"));
            }
        }
    }
    Ok(())
}

/// C06 — structure of the vectors and soundness of `changed`
pub fn oracle_c06(case: &Case, lines: &[String], declared_in_order: &[String]) -> Result<(), String> {
    let ls = significant(lines);
    if !ls.iter().any(|l| l.starts_with("bind ok")) {
        return Ok(());
    }
    let in_names: Vec<String> = case.sigs.iter().filter(|s| s.is_input()).map(|s| hex(&s.name)).collect();
    let mut out_names: Vec<String> = case.sigs.iter().filter(|s| s.is_output()).map(|s| hex(&s.name)).collect();
    out_names.extend(declared_in_order.iter().map(|d| hex(d)));
    let header: Vec<String> = case.prog.header.iter().map(|h| hex(h)).collect();
    // the vectors actually handed to the driver, in call order (the constructor's call first)
    let mut calls: Vec<HashMap<String, String>> = Vec::new();
    let mut prev: HashMap<String, String> = HashMap::new();
    for l in &ls {
        if l.starts_with("call ") {
            let mut m = HashMap::new();
            for e in list_items(field(l, "in").unwrap_or("[]")) {
                let (n, v, _) = in_entry(e);
                m.insert(n.to_string(), v.to_string());
            }
            calls.push(m);
            continue;
        }
        if !(l.starts_with("item ") && item_kind(l) == "row") {
            continue;
        }
        // the call for this row is the last one logged; the previous vector is the one before it
        if calls.len() >= 2 {
            prev = calls[calls.len() - 2].clone();
        }
        let ins = list_items(field(l, "in").unwrap_or("[]"));
        let names: Vec<String> = ins.iter().map(|e| in_entry(e).0.to_string()).collect();
        if names != in_names {
            return Err(format!("inputs are not one entry per input-capable signal in signal order: {l}"));
        }
        for e in &ins {
            let (n, v, ch) = in_entry(e);
            let sig = case.sigs.iter().find(|s| hex(&s.name) == n).unwrap();
            if !header.contains(&n.to_string()) {
                let d = sig.default.map(|x| x.to_string()).unwrap_or("Z".into());
                if v != d || ch {
                    return Err(format!("input {n} is omitted by the header but is {v}/{ch} (default {d}): {l}"));
                }
            }
            if !ch {
                if let Some(p) = prev.get(n) {
                    if p != v {
                        return Err(format!("input {n} not flagged as changed but was {p} and is {v}: {l}"));
                    }
                }
            }
        }
        let outs = list_items(field(l, "out").unwrap_or("[]"));
        if !outs.is_empty() || out_names.is_empty() {
            let names: Vec<String> = outs.iter().map(|e| out_entry(e).0.to_string()).collect();
            if !outs.is_empty() && names != out_names {
                return Err(format!("outputs are not one entry per output-capable / virtual signal in signal order: {l}"));
            }
            for e in &outs {
                let (n, _, x, _) = out_entry(e);
                let is_bidir = case.sigs.iter().any(|s| hex(&s.name) == n && s.dir == Dir::Bidir);
                let col = if is_bidir { hex(&format!("{}_out", unhex(n))) } else { n.to_string() };
                if !header.contains(&col) && x != "X" {
                    return Err(format!("expected value of {n} is {x} although the header has no column for it: {l}"));
                }
            }
        }
    }
    Ok(())
}

pub fn unhex(h: &str) -> String {
    let b: Vec<u8> = h
        .trim_start_matches('h')
        .as_bytes()
        .chunks(2)
        .map(|c| u8::from_str_radix(std::str::from_utf8(c).unwrap_or("0"), 16).unwrap_or(0))
        .collect();
    String::from_utf8_lossy(&b).to_string()
}

/// C10 — nothing panics
pub fn oracle_no_panic(lines: &[String]) -> Result<(), String> {
    for l in lines {
        if !l.starts_with("# ") && l.contains(" panic") {
            return Err(format!("panic: {l}"));
        }
    }
    Ok(())
}

/// C13 — a failing call surfaces as that very error at that very place; deviations are errors
pub fn oracle_c13(case: &Case, lines: &[String], script: &[Resp]) -> Result<(), String> {
    let ls = significant(lines);
    let Some(fault) = &case.fault else { return Ok(()) };
    // index of calls → the line that reports its result (ctor line or item line)
    let mut call_no = 0usize;
    let mut pending: Option<usize> = None;
    let first_len = match script.first() {
        Some(Resp::Ok(a)) => Some(a.clone()),
        _ => None,
    };
    for l in &ls {
        if l.starts_with("call ") {
            pending = Some(call_no);
            call_no += 1;
            continue;
        }
        let Some(c) = pending.take() else { continue };
        match fault {
            Fault::Fail(at, code) if *at == c => {
                let want_ctor = format!("ctor err driver:{code}");
                if c == 0 {
                    if *l != want_ctor {
                        return Err(format!("constructor call failed with {code} but the constructor reported: {l}"));
                    }
                } else if !(l.starts_with("item ") && l.ends_with(&format!(" err driver:{code}"))) {
                    return Err(format!("call {c} failed with {code} but its item is: {l}"));
                }
            }
            Fault::Deviate(at, _, _) if *at == c && c > 0 => {
                // only checked rows (rw calls that deliver outputs) are judged
                if let (Some(first), Some(Resp::Ok(now))) = (&first_len, script.get(c)) {
                    let rw_checked = l.starts_with("item ") && (item_kind(l) == "row" || item_kind(l) == "err");
                    let same_layout = first.len() == now.len() && first.iter().zip(now.iter()).all(|(a, b)| a.0 == b.0);
                    let is_wo = ls.iter().any(|x| x.starts_with("call wo")) && {
                        // find kind of this call
                        let mut n = 0;
                        let mut wo = false;
                        for x in &ls {
                            if x.starts_with("call ") {
                                if n == c {
                                    wo = x.starts_with("call wo");
                                }
                                n += 1;
                            }
                        }
                        wo
                    };
                    let row_unchecked = item_kind(l) == "row" && list_items(field(l, "out").unwrap_or("[]")).is_empty();
                    if rw_checked && !same_layout && !is_wo && !row_unchecked && item_kind(l) != "err" {
                        return Err(format!(
                            "answer {c} deviates from the first layout ({} outputs instead of {}, or another order) but the row is not an error: {l}",
                            now.len(),
                            first.len()
                        ));
                    }
                }
            }
            _ => {}
        }
    }
    Ok(())
}

/// C17 — judged on the implementation's own draw log: range, one draw per requested bound, and replay
/// (equal bound histories since the last (re)seed give equal values)
pub fn oracle_c17(log: &[digital_test_runner::verif_hooks::RngEvent]) -> Result<(), String> {
    use digital_test_runner::verif_hooks::RngEvent;
    let mut hist: Vec<i64> = vec![];
    let mut table: HashMap<Vec<i64>, i64> = HashMap::new();
    let mut pending: Option<i64> = None;
    for ev in log {
        match ev {
            RngEvent::NewContext => {
                hist.clear();
                table.clear();
                pending = None;
            }
            RngEvent::Reset => {
                if pending.is_some() {
                    return Err("a bound was requested but no value drawn before resetRandom".into());
                }
                hist.clear();
            }
            RngEvent::Bound(b) => {
                if pending.is_some() {
                    return Err("two bounds requested with no draw in between".into());
                }
                pending = Some(*b);
            }
            RngEvent::Draw(v) => {
                let Some(b) = pending.take() else {
                    return Err(format!("a value ({v}) was drawn without random(n) asking for it (more than one draw per evaluation)"));
                };
                if b >= 2 && !(0 <= *v && *v < b) {
                    return Err(format!("random({b}) delivered {v}, outside 0 <= r < {b}"));
                }
                hist.push(b);
                if let Some(old) = table.get(&hist) {
                    if old != v {
                        return Err(format!(
                            "after resetRandom the draw for the bound sequence {hist:?} is {v}, but the same sequence gave {old} earlier in the run"
                        ));
                    }
                } else {
                    table.insert(hist.clone(), *v);
                }
            }
        }
    }
    if pending.is_some() {
        return Err("a bound was requested but no value drawn".into());
    }
    Ok(())
}
