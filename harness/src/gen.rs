//! AST-first generator of test programs, signal lists and driver plans, and the layout-aware printer.
use crate::prng::{any_i64, Prng, BOUNDARY};

#[derive(Clone, Debug, PartialEq)]
pub enum GExpr {
    Num(i64), // always >= 0: the language has no negative literals
    Var(String),
    Bin(&'static str, Box<GExpr>, Box<GExpr>),
    Un(&'static str, Box<GExpr>),
    Call(String, Vec<GExpr>),
}

#[derive(Clone, Debug, PartialEq)]
pub enum GEntry {
    Num(i64),
    Expr(GExpr),
    Bits(u8, GExpr),
    X,
    Z,
    C,
}

#[derive(Clone, Debug, PartialEq)]
pub enum GStmt {
    Let(String, GExpr),
    Row(Vec<GEntry>),
    Loop(String, GExpr, Vec<GStmt>),
    Repeat(GExpr, Vec<GEntry>),
    While(GExpr, Vec<GStmt>),
    Reset,
    Declare(String, GExpr),
}

#[derive(Clone, Debug, PartialEq)]
pub enum Dir {
    In,
    Out,
    Bidir,
    /// only inside recorded driver answers: an entry for a declared (virtual) signal of the test itself
    Virt,
}

#[derive(Clone, Debug, PartialEq)]
pub struct SigSpec {
    pub name: String,
    pub bits: usize,
    pub dir: Dir,
    /// None = high-Z default (inputs / bidirectional only)
    pub default: Option<i64>,
}

impl SigSpec {
    pub fn is_input(&self) -> bool {
        matches!(self.dir, Dir::In | Dir::Bidir)
    }
    pub fn is_output(&self) -> bool {
        matches!(self.dir, Dir::Out | Dir::Bidir)
    }
}

#[derive(Clone, Debug)]
pub struct Prog {
    pub header: Vec<String>,
    pub stmts: Vec<GStmt>,
}

/// (name, symbol, precedence as in the property statement: smaller binds tighter)
pub const BINOPS: &[(&str, &str, u8)] = &[
    ("eq", "=", 8),
    ("ne", "!=", 8),
    ("gt", ">", 7),
    ("lt", "<", 7),
    ("ge", ">=", 7),
    ("le", "<=", 7),
    ("or", "|", 6),
    ("xor", "^", 5),
    ("and", "&", 4),
    ("shl", "<<", 3),
    ("shr", ">>", 3),
    ("add", "+", 2),
    ("sub", "-", 2),
    ("mul", "*", 1),
    ("div", "/", 1),
    ("rem", "%", 1),
];
pub const UNOPS: &[(&str, &str)] = &[("neg", "-"), ("lnot", "!"), ("bnot", "~")];

pub fn binop(name: &str) -> (&'static str, &'static str, u8) {
    *BINOPS.iter().find(|o| o.0 == name).unwrap()
}
pub fn unop_sym(name: &str) -> &'static str {
    UNOPS.iter().find(|o| o.0 == name).unwrap().1
}

pub fn hex(s: &str) -> String {
    let mut out = String::from("h");
    for b in s.bytes() {
        out.push_str(&format!("{b:02x}"));
    }
    out
}

// ---------------------------------------------------------------------------------------------
// canonical dump of the generating AST (same format as the hook's dump of the parsed AST)

pub fn dump_expr(e: &GExpr, out: &mut String) {
    match e {
        GExpr::Num(n) => out.push_str(&format!("(num {n})")),
        GExpr::Var(s) => out.push_str(&format!("(var {})", hex(s))),
        GExpr::Bin(o, l, r) => {
            out.push_str(&format!("(bin {o} "));
            dump_expr(l, out);
            out.push(' ');
            dump_expr(r, out);
            out.push(')');
        }
        GExpr::Un(o, e) => {
            out.push_str(&format!("(un {o} "));
            dump_expr(e, out);
            out.push(')');
        }
        GExpr::Call(f, args) => {
            out.push_str(&format!("(call {}", hex(f)));
            for a in args {
                out.push(' ');
                dump_expr(a, out);
            }
            out.push(')');
        }
    }
}

fn dump_row(entries: &[GEntry], line: usize, out: &mut String) {
    out.push_str(&format!("(row {line}"));
    for d in entries {
        out.push(' ');
        match d {
            GEntry::Num(n) => out.push_str(&format!("(n {n})")),
            GEntry::Expr(e) => {
                out.push_str("(e ");
                dump_expr(e, out);
                out.push(')');
            }
            GEntry::Bits(k, e) => {
                out.push_str(&format!("(bits {k} "));
                dump_expr(e, out);
                out.push(')');
            }
            GEntry::X => out.push('X'),
            GEntry::Z => out.push('Z'),
            GEntry::C => out.push('C'),
        }
    }
    out.push(')');
}

/// `lines`: line of every Row / Repeat statement in program order (consumed front to back)
pub fn dump_stmts(stmts: &[GStmt], lines: &mut std::slice::Iter<'_, usize>, out: &mut String) {
    out.push('[');
    let mut first = true;
    for s in stmts {
        if matches!(s, GStmt::Declare(..)) {
            continue;
        }
        if !first {
            out.push(' ');
        }
        first = false;
        match s {
            GStmt::Let(n, e) => {
                out.push_str(&format!("(let {} ", hex(n)));
                dump_expr(e, out);
                out.push(')');
            }
            GStmt::Row(entries) => dump_row(entries, *lines.next().unwrap_or(&0), out),
            GStmt::Loop(v, m, body) => {
                out.push_str(&format!("(loop {} ", hex(v)));
                dump_expr(m, out);
                out.push(' ');
                dump_stmts(body, lines, out);
                out.push(')');
            }
            GStmt::Repeat(m, entries) => {
                out.push_str(&format!("(loop {} ", hex("n")));
                dump_expr(m, out);
                out.push_str(" [");
                dump_row(entries, *lines.next().unwrap_or(&0), out);
                out.push_str("])");
            }
            GStmt::While(c, body) => {
                out.push_str("(while ");
                dump_expr(c, out);
                out.push(' ');
                dump_stmts(body, lines, out);
                out.push(')');
            }
            GStmt::Reset => out.push_str("(reset)"),
            GStmt::Declare(..) => {}
        }
    }
    out.push(']');
}

pub fn collect_declares(stmts: &[GStmt], out: &mut Vec<(String, GExpr)>) {
    for s in stmts {
        match s {
            GStmt::Declare(n, e) => out.push((n.clone(), e.clone())),
            GStmt::Loop(_, _, b) | GStmt::While(_, b) => collect_declares(b, out),
            _ => {}
        }
    }
}

// ---------------------------------------------------------------------------------------------
// printer

#[derive(Clone, Debug)]
pub struct Style {
    /// probability (percent) of extra blanks / tabs between tokens
    pub wide: u32,
    /// probability (percent) of a trailing comment on a line after the header
    pub comments: u32,
    /// probability (percent) of a blank or comment-only line before a statement
    pub blank_lines: u32,
    pub crlf: bool,
    /// blank lines before the header
    pub lead_blank: usize,
    pub trailing_newline: bool,
    /// probability (percent) of printing a literal in a non-decimal radix
    pub radix: u32,
    /// probability (percent) of wrapping a sub-expression in redundant parentheses
    pub parens: u32,
    /// print every token with no separator where the grammar allows it
    pub tight: bool,
}

impl Style {
    pub fn plain() -> Style {
        Style {
            wide: 0,
            comments: 0,
            blank_lines: 0,
            crlf: false,
            lead_blank: 0,
            trailing_newline: true,
            radix: 0,
            parens: 0,
            tight: true,
        }
    }
    pub fn random(r: &mut Prng) -> Style {
        Style {
            wide: *r.pick(&[0, 0, 20, 60]),
            comments: *r.pick(&[0, 0, 20, 50]),
            blank_lines: *r.pick(&[0, 0, 15, 40]),
            crlf: r.chance(1, 5),
            lead_blank: if r.chance(1, 4) { r.below(3) + 1 } else { 0 },
            trailing_newline: !r.chance(1, 4),
            radix: *r.pick(&[0, 0, 30, 80]),
            parens: *r.pick(&[0, 0, 15, 40]),
            tight: r.chance(1, 6),
        }
    }
}

pub struct Printed {
    pub text: String,
    /// line of every Row / Repeat statement in program order
    pub row_lines: Vec<usize>,
}

fn wordy(tok: &str) -> bool {
    tok.chars().next().map(|c| c.is_alphanumeric() || c == '_').unwrap_or(false)
        || tok.chars().last().map(|c| c.is_alphanumeric() || c == '_').unwrap_or(false)
}

fn lit(n: i64, r: &mut Prng, st: &Style) -> String {
    assert!(n >= 0);
    if (r.below(100) as u32) < st.radix {
        match r.below(7) {
            // leading zeros behind the prefix
            5 => format!("0x{n:0>12x}"),
            6 => format!("000{n:o}"),
            0 => format!("0x{n:x}"),
            1 => format!("0X{n:X}"),
            2 => {
                // mixed case hex digits
                let s = format!("{n:x}");
                let s: String = s
                    .chars()
                    .map(|c| if r.chance(1, 2) { c.to_ascii_uppercase() } else { c })
                    .collect();
                format!("0x{s}")
            }
            3 => format!("0{n:o}"),
            _ => {
                if r.chance(1, 2) {
                    format!("0b{n:b}")
                } else {
                    format!("0B{n:b}")
                }
            }
        }
    } else {
        format!("{n}")
    }
}

fn expr_tokens(e: &GExpr, r: &mut Prng, st: &Style, out: &mut Vec<String>) {
    let wrap = (r.below(100) as u32) < st.parens;
    if wrap {
        out.push("(".into());
    }
    match e {
        GExpr::Num(n) => out.push(lit(*n, r, st)),
        GExpr::Var(s) => out.push(s.clone()),
        GExpr::Bin(o, l, rr) => {
            let (_, sym, p) = binop(o);
            let lp = matches!(&**l, GExpr::Bin(lo, _, _) if binop(lo).2 > p);
            let rp = matches!(&**rr, GExpr::Bin(ro, _, _) if binop(ro).2 >= p);
            if lp {
                out.push("(".into());
            }
            expr_tokens(l, r, st, out);
            if lp {
                out.push(")".into());
            }
            out.push(sym.into());
            if rp {
                out.push("(".into());
            }
            expr_tokens(rr, r, st, out);
            if rp {
                out.push(")".into());
            }
        }
        GExpr::Un(o, e) => {
            out.push(unop_sym(o).into());
            let p = matches!(&**e, GExpr::Bin(..));
            if p {
                out.push("(".into());
            }
            expr_tokens(e, r, st, out);
            if p {
                out.push(")".into());
            }
        }
        GExpr::Call(f, args) => {
            out.push(f.clone());
            out.push("(".into());
            for (i, a) in args.iter().enumerate() {
                if i > 0 {
                    out.push(",".into());
                }
                expr_tokens(a, r, st, out);
            }
            out.push(")".into());
        }
    }
    if wrap {
        out.push(")".into());
    }
}

fn row_tokens(entries: &[GEntry], r: &mut Prng, st: &Style, out: &mut Vec<String>) {
    for d in entries {
        match d {
            GEntry::Num(n) => out.push(lit(*n, r, st)),
            GEntry::Expr(e) => {
                out.push("(".into());
                expr_tokens(e, r, st, out);
                out.push(")".into());
            }
            GEntry::Bits(k, e) => {
                out.push("bits".into());
                out.push("(".into());
                out.push(lit(*k as i64, r, st));
                out.push(",".into());
                expr_tokens(e, r, st, out);
                out.push(")".into());
            }
            GEntry::X => out.push((*r.pick(&["X", "x"])).into()),
            GEntry::Z => out.push((*r.pick(&["Z", "z"])).into()),
            GEntry::C => out.push((*r.pick(&["C", "c"])).into()),
        }
        // entries of a row are separated by at least one blank
        out.push("\u{1}".into());
    }
    out.pop();
}

struct Out<'a> {
    text: String,
    line: usize,
    r: &'a mut Prng,
    st: &'a Style,
    row_lines: Vec<usize>,
    after_header: bool,
}

impl<'a> Out<'a> {
    fn blank(&mut self) -> String {
        if (self.r.below(100) as u32) < self.st.wide {
            let n = self.r.below(3) + 1;
            (0..n).map(|_| *self.r.pick(&[' ', ' ', '\t', '\r', '\u{c}'])).collect()
        } else {
            " ".to_string()
        }
    }
    fn newline(&mut self) {
        if self.st.crlf {
            self.text.push('\r');
        }
        self.text.push('\n');
        self.line += 1;
    }
    fn emit_line(&mut self, toks: &[String]) {
        // optional blank / comment-only lines first (only after the header)
        if self.after_header {
            while (self.r.below(100) as u32) < self.st.blank_lines {
                if self.r.chance(1, 2) {
                    // comment-only lines start in column 0 as often as not (runs of them must still count line by line)
                    if self.r.chance(1, 2) {
                        let b = self.blank();
                        self.text.push_str(&b);
                    }
                    self.text.push_str(*self.r.pick(&["# only a comment", "#", "#1 0", "# end loop"]));
                } else if self.r.chance(1, 2) {
                    let b = self.blank();
                    self.text.push_str(&b);
                }
                self.newline();
            }
        }
        if (self.r.below(100) as u32) < self.st.wide {
            let b = self.blank();
            self.text.push_str(&b);
        }
        let mut prev: Option<&str> = None;
        for t in toks {
            if t == "\u{1}" {
                let b = self.blank();
                self.text.push_str(&b);
                prev = None;
                continue;
            }
            if let Some(p) = prev {
                let need = wordy(p) && wordy(t);
                if need || (!self.st.tight && (self.r.below(100) as u32) < 30 + self.st.wide / 2) {
                    let b = self.blank();
                    self.text.push_str(&b);
                }
            }
            self.text.push_str(t);
            prev = Some(t);
        }
        if self.after_header && (self.r.below(100) as u32) < self.st.comments {
            let b = self.blank();
            self.text.push_str(&b);
            self.text.push_str(*self.r.pick(&["# c", "#", "#end loop", "# 1 2 3 ; ) ("]));
        } else if (self.r.below(100) as u32) < self.st.wide {
            let b = self.blank();
            self.text.push_str(&b);
        }
    }
    fn stmts(&mut self, stmts: &[GStmt], last_at_top: bool) {
        let n = stmts.len();
        for (i, s) in stmts.iter().enumerate() {
            let mut toks: Vec<String> = vec![];
            let (r, st) = (&mut *self.r, self.st);
            match s {
                GStmt::Let(name, e) => {
                    toks.push("let".into());
                    toks.push(name.clone());
                    toks.push("=".into());
                    expr_tokens(e, r, st, &mut toks);
                    toks.push(";".into());
                    self.emit_line(&toks);
                }
                GStmt::Declare(name, e) => {
                    toks.push("declare".into());
                    toks.push(name.clone());
                    toks.push("=".into());
                    expr_tokens(e, r, st, &mut toks);
                    toks.push(";".into());
                    self.emit_line(&toks);
                }
                GStmt::Reset => {
                    toks.push("resetRandom".into());
                    toks.push(";".into());
                    self.emit_line(&toks);
                }
                GStmt::Row(entries) => {
                    row_tokens(entries, r, st, &mut toks);
                    self.emit_line(&toks);
                    self.row_lines.push(self.line);
                }
                GStmt::Repeat(m, entries) => {
                    toks.push("repeat".into());
                    toks.push("(".into());
                    expr_tokens(m, r, st, &mut toks);
                    toks.push(")".into());
                    row_tokens(entries, r, st, &mut toks);
                    self.emit_line(&toks);
                    self.row_lines.push(self.line);
                }
                GStmt::Loop(v, m, body) => {
                    toks.push("loop".into());
                    toks.push("(".into());
                    toks.push(v.clone());
                    toks.push(",".into());
                    expr_tokens(m, r, st, &mut toks);
                    toks.push(")".into());
                    self.emit_line(&toks);
                    self.newline();
                    self.stmts(body, false);
                    self.emit_line(&["end".into(), "loop".into()]);
                }
                GStmt::While(c, body) => {
                    toks.push("while".into());
                    toks.push("(".into());
                    expr_tokens(c, r, st, &mut toks);
                    toks.push(")".into());
                    self.emit_line(&toks);
                    self.newline();
                    self.stmts(body, false);
                    self.emit_line(&["end".into(), "while".into()]);
                }
            }
            let last = last_at_top && i + 1 == n;
            if !last || self.st.trailing_newline {
                self.newline();
            }
        }
    }
}

pub fn print(prog: &Prog, r: &mut Prng, st: &Style) -> Printed {
    let mut o = Out {
        text: String::new(),
        line: 1,
        r,
        st,
        row_lines: vec![],
        after_header: false,
    };
    for _ in 0..st.lead_blank {
        if o.r.chance(1, 2) {
            let b = o.blank();
            o.text.push_str(&b);
        }
        o.newline();
    }
    let toks: Vec<String> = prog
        .header
        .iter()
        .flat_map(|h| vec![h.clone(), "\u{1}".to_string()])
        .collect();
    let toks = &toks[..toks.len().saturating_sub(1)];
    o.emit_line(toks);
    o.newline();
    o.after_header = true;
    o.stmts(&prog.stmts, true);
    if prog.stmts.is_empty() && st.trailing_newline && o.r.chance(1, 2) {
        o.newline();
    }
    Printed {
        text: o.text,
        row_lines: o.row_lines,
    }
}

// ---------------------------------------------------------------------------------------------
// generator

#[derive(Clone, Debug)]
pub struct Profile {
    pub max_depth: usize,
    pub max_stmts: usize,
    pub max_inputs: usize,
    pub max_outputs: usize,
    pub max_bidir: usize,
    /// per-entry percentages in input columns
    pub p_c: u32,
    pub p_x: u32,
    pub p_z: u32,
    pub p_expr: u32,
    pub p_bits: u32,
    /// percent of statements that are loops / whiles / lets / declare / reset (rest: rows)
    pub p_loop: u32,
    pub p_repeat: u32,
    pub p_while: u32,
    pub p_let: u32,
    pub p_declare: u32,
    pub p_reset: u32,
    /// percent chance that an expression leaf reads a device output
    pub p_read: u32,
    pub p_random: u32,
    /// percent chance of operators that may fail (division, remainder)
    pub p_div: u32,
    /// percent chance that the header omits a signal / that the signal list has extra signals
    pub p_omit: u32,
    /// percent chance of a deliberately broken binding (unknown column, C on output, read of input, …)
    pub p_bad_bind: u32,
    /// percent chance of a fault plan for the driver
    pub p_fault: u32,
    /// percent chance that a driver value is Z or X
    pub p_zx: u32,
    /// percent chance that a variable shares its name with a signal
    pub p_shadow: u32,
    /// wide values (boundary constants) instead of small ones
    pub p_wide: u32,
    pub widths: &'static [usize],
    pub max_expr_depth: usize,
}

impl Profile {
    pub fn default_run() -> Profile {
        Profile {
            max_depth: 3,
            max_stmts: 7,
            max_inputs: 3,
            max_outputs: 3,
            max_bidir: 1,
            p_c: 8,
            p_x: 8,
            p_z: 5,
            p_expr: 30,
            p_bits: 6,
            p_loop: 12,
            p_repeat: 6,
            p_while: 8,
            p_let: 18,
            p_declare: 6,
            p_reset: 3,
            p_read: 15,
            p_random: 5,
            p_div: 6,
            p_omit: 15,
            p_bad_bind: 4,
            p_fault: 8,
            p_zx: 6,
            p_shadow: 6,
            p_wide: 25,
            widths: &[1, 1, 2, 4, 7, 8, 16, 31, 32, 33, 62, 63, 64],
            max_expr_depth: 3,
        }
    }
}

#[derive(Clone, Debug)]
pub enum Fault {
    /// the call with this index (0 = constructor) returns an error with this code
    Fail(usize, u32),
    /// the answer of this call deviates from the layout: kind 0 drop, 1 add, 2 duplicate, 3 swap, 4 substitute
    Deviate(usize, u8, usize),
}

#[derive(Clone, Debug)]
pub struct Case {
    pub prog: Prog,
    pub style_seed: u64,
    pub style: Style,
    pub sigs: Vec<SigSpec>,
    /// signals (by value) the driver returns, in this order, on every call
    pub layout: Vec<SigSpec>,
    pub own_wo: bool,
    pub drv_seed: u64,
    pub fault: Option<Fault>,
    pub rng_seed: u64,
    pub p_zx: u32,
    /// names the program reads in expressions (driver keeps these numeric most of the time)
    pub read_names: Vec<String>,
    pub cap: usize,
    pub tags: Vec<&'static str>,
}

// some are spelled like words of the language that are NOT keywords in that position (`x`, `Z`: row entries; `ite`: a function)
const VAR_NAMES: &[&str] = &["a", "b", "i", "j", "k", "m", "t", "v", "w", "n", "cnt", "_u", "x1", "endx", "loop1", "x", "Z", "ite", "N"];
// header names may be spelled like keywords (the header has its own scanner), differ only in letter case, or extend one another
const IN_NAMES: &[&str] = &["A", "B", "D", "CLK", "EN", "S0", "IN_3", "ALU-~RESET", "é", "loop", "X", "a", "AB", "end"];
// `n` is also the implicit counter of `repeat`
const OUT_NAMES: &[&str] = &["Q", "Y", "R", "DONE", "OUT", "q2", "Flag", "Σ", "n", "Z", "bits", "let", "C", "Q_out_q", "random", "q", "y", "done"];
const BI_NAMES: &[&str] = &["BUS", "IO", "P", "IO2", "BU"];

fn is_while_counter(v: &str) -> bool {
    v.len() >= 2 && v.starts_with('w') && v[1..].chars().all(|c| c.is_ascii_digit())
}

fn is_ident(s: &str) -> bool {
    let mut cs = s.chars();
    match cs.next() {
        Some(c) if c.is_ascii_alphabetic() || c == '_' => {}
        _ => return false,
    }
    const KEYWORDS: &[&str] = &["end", "loop", "repeat", "bits", "let", "resetRandom", "while", "declare", "program", "init", "memory", "def", "call"];
    cs.all(|c| c.is_ascii_alphanumeric() || c == '_') && !KEYWORDS.contains(&s)
}

pub struct Gen<'a> {
    pub r: &'a mut Prng,
    pub p: &'a Profile,
    /// variables in scope, innermost frame last
    scopes: Vec<Vec<String>>,
    /// names of output-capable signals that may be read in expressions (identifier-shaped only)
    readable: Vec<String>,
    pub reads: Vec<String>,
    header_len: usize,
    /// per column: is it an input column (C / X expansion applies)
    col_input: Vec<bool>,
    col_bits: Vec<usize>,
    budget: usize,
    declared: Vec<String>,
    while_counter: usize,
    rebind_mode: Vec<u8>,
}

impl<'a> Gen<'a> {
    fn in_scope(&self) -> Vec<String> {
        self.scopes.iter().flatten().cloned().collect()
    }

    fn small_or_wide(&mut self) -> i64 {
        if (self.r.below(100) as u32) < self.p.p_wide {
            *self.r.pick(BOUNDARY)
        } else {
            self.r.below(6) as i64
        }
    }

    pub fn expr(&mut self, depth: usize, allow_vars: bool) -> GExpr {
        let leaf = depth == 0 || self.r.chance(1, 3);
        if leaf {
            let vars = if allow_vars { self.in_scope() } else { vec![] };
            let roll = self.r.below(100) as u32;
            if roll < self.p.p_read && !self.readable.is_empty() {
                let n = self.r.pick(&self.readable).clone();
                if !self.reads.contains(&n) {
                    self.reads.push(n.clone());
                }
                return GExpr::Var(n);
            }
            if !vars.is_empty() && self.r.chance(1, 2) {
                return GExpr::Var(self.r.pick(&vars).clone());
            }
            return GExpr::Num(self.small_or_wide());
        }
        if depth >= 1 && self.r.chance(1, 30) {
            // the same expression on both sides of an operator: `e - e` is 0 only if `e` draws no random numbers
            let e = self.expr(depth - 1, allow_vars);
            let o = *self.r.pick(&["sub", "xor", "eq", "div", "and", "add", "ne", "rem"]);
            return GExpr::Bin(o, Box::new(e.clone()), Box::new(e));
        }
        let roll = self.r.below(100) as u32;
        if roll < self.p.p_random {
            let bound = if self.r.chance(1, 8) {
                self.expr(depth - 1, allow_vars)
            } else if self.r.chance(1, 12) {
                // the ends of the range of bounds: empty ranges (an error item, never a panic) and the largest one
                match self.r.below(6) {
                    0 => GExpr::Num(0),
                    1 => GExpr::Num(1),
                    2 => GExpr::Un("neg", Box::new(GExpr::Num(1))),
                    3 => GExpr::Bin("shl", Box::new(GExpr::Num(1)), Box::new(GExpr::Num(63))),
                    4 => GExpr::Num(i64::MAX),
                    _ => GExpr::Un("neg", Box::new(GExpr::Num(i64::MAX))),
                }
            } else {
                GExpr::Num(*self.r.pick(&[2, 3, 4, 5, 16, 1000, 1 << 40, 1 << 62]))
            };
            return GExpr::Call("random".into(), vec![bound]);
        }
        if self.r.chance(1, 70) {
            // the function that is in the table but not implemented: an error item, whatever its arguments are
            // (they are not evaluated: a `random` among them draws nothing)
            let a = self.expr(depth - 1, allow_vars);
            let b = if self.r.chance(1, 2) { GExpr::Num(*self.r.pick(&[1, 8, 64])) } else { self.expr(depth - 1, allow_vars) };
            return GExpr::Call("signExt".into(), vec![a, b]);
        }
        if roll < self.p.p_random + 6 {
            let c = self.expr(depth - 1, allow_vars);
            let mut a = self.expr(depth - 1, allow_vars);
            let mut b = self.expr(depth - 1, allow_vars);
            if self.r.chance(1, 3) {
                // both branches plain operands, one of them a bare name — an output the device may leave at Z or X, or
                // a variable: only the selected branch may be looked at
                let vars = if allow_vars { self.in_scope() } else { vec![] };
                let name = if !self.readable.is_empty() && (vars.is_empty() || self.r.chance(2, 3)) {
                    let n = self.r.pick(&self.readable).clone();
                    if !self.reads.contains(&n) {
                        self.reads.push(n.clone());
                    }
                    Some(n)
                } else if !vars.is_empty() {
                    Some(self.r.pick(&vars).clone())
                } else {
                    None
                };
                if let Some(n) = name {
                    let lit = GExpr::Num(self.r.below(9) as i64);
                    if self.r.chance(1, 2) {
                        a = GExpr::Var(n);
                        b = lit;
                    } else {
                        a = lit;
                        b = GExpr::Var(n);
                    }
                }
            }
            return GExpr::Call("ite".into(), vec![c, a, b]);
        }
        if roll < self.p.p_random + 6 + 15 {
            let o = self.r.pick(UNOPS).0;
            let e = self.expr(depth - 1, allow_vars);
            return GExpr::Un(o, Box::new(e));
        }
        if (self.r.below(100) as u32) < self.p.p_div {
            // the two operand pairs on which division itself is delicate
            let o = *self.r.pick(&["div", "rem"]);
            let min = GExpr::Bin("shl", Box::new(GExpr::Num(1)), Box::new(GExpr::Num(63)));
            let l = if self.r.chance(1, 2) { min } else { self.expr(depth - 1, allow_vars) };
            let r = match self.r.below(3) {
                0 => GExpr::Un("neg", Box::new(GExpr::Num(1))),
                1 => GExpr::Num(0),
                _ => self.expr(depth - 1, allow_vars),
            };
            return GExpr::Bin(o, Box::new(l), Box::new(r));
        }
        let mut o = self.r.pick(BINOPS).0;
        if (o == "div" || o == "rem") && (self.r.below(100) as u32) >= self.p.p_div * 4 {
            o = *self.r.pick(&["add", "sub", "mul", "and", "or", "xor", "shl", "shr", "lt", "eq"]);
        }
        let l = self.expr(depth - 1, allow_vars);
        let r = self.expr(depth - 1, allow_vars);
        GExpr::Bin(o, Box::new(l), Box::new(r))
    }

    fn entry_for(&mut self, col: usize) -> GEntry {
        let roll = self.r.below(100) as u32;
        let input = self.col_input[col];
        let p = self.p;
        if input && roll < p.p_c {
            return GEntry::C;
        }
        if roll < p.p_c + p.p_x {
            return GEntry::X;
        }
        if roll < p.p_c + p.p_x + p.p_z {
            return GEntry::Z;
        }
        if roll < p.p_c + p.p_x + p.p_z + p.p_expr {
            let d = self.r.below(self.p.max_expr_depth + 1);
            return GEntry::Expr(self.expr(d, true));
        }
        let bits = self.col_bits[col];
        let v = match self.r.below(4) {
            0 => self.small_or_wide(),
            1 => {
                if bits >= 63 {
                    i64::MAX
                } else {
                    (1i64 << bits) - 1
                }
            }
            2 => {
                if bits >= 63 {
                    1 << 62
                } else {
                    1i64 << bits
                }
            }
            _ => self.r.below(4) as i64,
        };
        GEntry::Num(v)
    }

    fn row(&mut self) -> Vec<GEntry> {
        let mut out = vec![];
        let mut col = 0;
        while col < self.header_len {
            let left = self.header_len - col;
            if left >= 2 && (self.r.below(100) as u32) < self.p.p_bits {
                let k = self.r.below(left.min(4)) + 1;
                let k = if self.r.chance(1, 12) { 0 } else { k };
                let d = self.r.below(self.p.max_expr_depth + 1);
                out.push(GEntry::Bits(k as u8, self.expr(d, true)));
                col += k;
            } else {
                let e = self.entry_for(col);
                out.push(e);
                col += 1;
            }
        }
        out
    }

    fn fresh_var(&mut self) -> String {
        if (self.r.below(100) as u32) < self.p.p_shadow && !self.readable.is_empty() {
            return self.r.pick(&self.readable).clone();
        }
        // never touch the dedicated while counters (w<digit>…): they guarantee termination
        let vars: Vec<String> = self
            .in_scope()
            .into_iter()
            .filter(|v| !is_while_counter(v))
            .collect();
        if !vars.is_empty() && self.r.chance(1, 3) {
            return self.r.pick(&vars).clone();
        }
        (*self.r.pick(VAR_NAMES)).to_string()
    }

    /// the counter of the loop whose frame is the innermost one (a `let` of that name rebinds it)
    fn current_counter(&self) -> Option<String> {
        if self.scopes.len() > 1 {
            self.scopes.last().and_then(|f| f.first().cloned())
        } else {
            None
        }
    }

    pub fn block(&mut self, depth: usize, top: bool) -> Vec<GStmt> {
        let n = if top { self.r.below(self.p.max_stmts) + 1 } else { self.r.below(3) + 1 };
        let mut out = vec![];
        for _ in 0..n {
            if self.budget == 0 {
                break;
            }
            self.budget -= 1;
            let roll = self.r.below(100) as u32;
            let p = self.p;
            let mut acc = p.p_loop;
            if roll < acc && depth > 0 {
                let v = self.fresh_var();
                let bound = self.loop_bound();
                self.scopes.push(vec![v.clone()]);
                let d = self.scopes.len();
                if self.rebind_mode.len() > d {
                    self.rebind_mode[d] = 0;
                }
                let body = self.block(depth - 1, false);
                self.scopes.pop();
                out.push(GStmt::Loop(v, bound, body));
                continue;
            }
            acc += p.p_repeat;
            if roll < acc {
                let bound = self.loop_bound();
                self.scopes.push(vec!["n".to_string()]);
                let row = self.row();
                self.scopes.pop();
                out.push(GStmt::Repeat(bound, row));
                continue;
            }
            acc += p.p_while;
            if roll < acc && depth > 0 {
                // terminating by construction: a dedicated counter that only the while itself updates
                self.while_counter += 1;
                let w = format!("w{}", self.while_counter);
                let k = self.r.below(3) as i64;
                out.push(GStmt::Let(w.clone(), GExpr::Num(0)));
                self.scopes.last_mut().unwrap().push(w.clone());
                let mut cond = GExpr::Bin("lt", Box::new(GExpr::Var(w.clone())), Box::new(GExpr::Num(k)));
                if p.p_random > 0 && self.r.chance(1, 5) {
                    // a draw in the condition that cannot change its truth: one draw per evaluation of the condition
                    let n = 2 + self.r.below(5) as i64;
                    let always = GExpr::Bin(
                        "lt",
                        Box::new(GExpr::Call("random".into(), vec![GExpr::Num(n)])),
                        Box::new(GExpr::Num(n)),
                    );
                    cond = GExpr::Bin("and", Box::new(cond), Box::new(always));
                }
                if self.r.chance(1, 12) {
                    // a condition that cannot be evaluated: on the evaluation on which the counter has a particular
                    // value (then the condition is tried again by every further call, and fails again: the run ends in
                    // error items), or — with a draw — on some evaluations only (tried again until the draw allows it)
                    let k2 = self.r.below(3) as i64;
                    let bad = if p.p_random > 0 && self.r.chance(1, 2) {
                        GExpr::Bin("div", Box::new(GExpr::Num(8)), Box::new(GExpr::Bin("sub", Box::new(GExpr::Call("random".into(), vec![GExpr::Num(3)])), Box::new(GExpr::Num(1)))))
                    } else {
                        GExpr::Bin("div", Box::new(GExpr::Num(8)), Box::new(GExpr::Bin("sub", Box::new(GExpr::Var(w.clone())), Box::new(GExpr::Num(k2)))))
                    };
                    // `cond & (bad | 1)`: the truth of the condition is the counter's, the evaluation may fail
                    cond = GExpr::Bin("and", Box::new(cond), Box::new(GExpr::Bin("or", Box::new(bad), Box::new(GExpr::Num(1)))));
                }
                let mut body = self.block(depth - 1, false);
                // the update must rebind the same binding: it does, because while opens no scope —
                // unless the body sits inside a loop frame opened after the counter was bound, which
                // cannot happen here since the counter is bound in the current innermost frame
                body.push(GStmt::Let(
                    w.clone(),
                    GExpr::Bin("add", Box::new(GExpr::Var(w.clone())), Box::new(GExpr::Num(1))),
                ));
                out.push(GStmt::While(cond, body));
                continue;
            }
            acc += p.p_let;
            if roll < acc {
                let v = self.fresh_var();
                let d = self.r.below(self.p.max_expr_depth + 1);
                let e = if self.current_counter().as_deref() == Some(v.as_str()) {
                    // rebinding the counter of the enclosing loop: only ever move it forward, so
                    // that the loop still terminates
                    // (one style per frame: mixing `i + k` with a jump to i64::MAX could wrap around)
                    let depth = self.scopes.len();
                    while self.rebind_mode.len() <= depth {
                        self.rebind_mode.push(0);
                    }
                    if self.rebind_mode[depth] == 0 {
                        self.rebind_mode[depth] = if self.r.chance(1, 2) { 1 } else { 2 };
                    }
                    if self.r.chance(1, 3) {
                        // the counter is the loop's own (fix F17): the body may do to the variable what it likes —
                        // move it backwards, reset it — without changing how often it runs
                        match self.r.below(3) {
                            0 => GExpr::Bin("sub", Box::new(GExpr::Var(v.clone())), Box::new(GExpr::Num(1 + self.r.below(2) as i64))),
                            1 => GExpr::Num(0),
                            _ => GExpr::Un("neg", Box::new(GExpr::Var(v.clone()))),
                        }
                    } else if self.rebind_mode[depth] == 1 {
                        GExpr::Bin("add", Box::new(GExpr::Var(v.clone())), Box::new(GExpr::Num(self.r.below(3) as i64)))
                    } else {
                        GExpr::Num(*self.r.pick(&[5, 1000, i64::MAX - 1, i64::MAX]))
                    }
                } else if self.readable.contains(&v) && !self.in_scope().contains(&v) && self.r.chance(1, 2) {
                    // first binding of a name that is also an output, defined from the device's value of
                    // that very name: the right-hand side is a read of the output (the variable does not exist yet)
                    if !self.reads.contains(&v) {
                        self.reads.push(v.clone());
                    }
                    GExpr::Bin("add", Box::new(GExpr::Var(v.clone())), Box::new(GExpr::Num(self.r.below(3) as i64)))
                } else {
                    self.expr(d, true)
                };
                // bound in the innermost frame
                if !self.scopes.last().unwrap().contains(&v) {
                    self.scopes.last_mut().unwrap().push(v.clone());
                }
                out.push(GStmt::Let(v, e));
                continue;
            }
            acc += p.p_declare;
            if roll < acc && !self.declared.is_empty() {
                let name = self.declared.remove(0);
                let d = self.r.below(self.p.max_expr_depth + 1);
                let saved = std::mem::take(&mut self.scopes);
                self.scopes = vec![vec![]];
                let e = self.expr(d, false);
                self.scopes = saved;
                out.push(GStmt::Declare(name, e));
                continue;
            }
            acc += p.p_reset;
            if roll < acc {
                out.push(GStmt::Reset);
                continue;
            }
            out.push(GStmt::Row(self.row()));
        }
        out
    }

    fn loop_bound(&mut self) -> GExpr {
        if self.r.chance(1, 14) {
            // a bound that cannot be evaluated, always or on some passes of an enclosing loop: the loop is skipped by
            // an error item and the run goes on behind it (no scope may be left open)
            let vars = self.in_scope();
            return match self.r.below(5) {
                0 => GExpr::Bin("div", Box::new(GExpr::Num(3)), Box::new(GExpr::Num(0))),
                1 => GExpr::Call("random".into(), vec![GExpr::Num(self.r.below(2) as i64)]),
                2 | 3 if !vars.is_empty() => {
                    // fails on the pass on which the variable has that value
                    let v = self.r.pick(&vars).clone();
                    let k = self.r.below(3) as i64;
                    GExpr::Bin("div", Box::new(GExpr::Num(4)), Box::new(GExpr::Bin("sub", Box::new(GExpr::Var(v)), Box::new(GExpr::Num(k)))))
                }
                _ => GExpr::Call("signExt".into(), vec![GExpr::Num(2), GExpr::Num(1)]),
            };
        }
        match self.r.below(12) {
            0 => GExpr::Num(0),
            1 => GExpr::Un("neg", Box::new(GExpr::Num(self.r.below(3) as i64 + 1))),
            2 => {
                let vars = self.in_scope();
                if vars.is_empty() {
                    GExpr::Num(2)
                } else {
                    // keep it small whatever the variable holds
                    GExpr::Bin("and", Box::new(GExpr::Var(self.r.pick(&vars).clone())), Box::new(GExpr::Num(3)))
                }
            }
            3 if !self.readable.is_empty() => {
                let n = self.r.pick(&self.readable).clone();
                if !self.reads.contains(&n) {
                    self.reads.push(n.clone());
                }
                GExpr::Bin("and", Box::new(GExpr::Var(n)), Box::new(GExpr::Num(3)))
            }
            4 => GExpr::Bin("sub", Box::new(GExpr::Num(3)), Box::new(GExpr::Num(self.r.below(5) as i64))),
            _ => GExpr::Num(self.r.below(3) as i64 + 1),
        }
    }
}

fn pick_names(r: &mut Prng, pool: &[&str], n: usize) -> Vec<String> {
    let mut v: Vec<&str> = pool.to_vec();
    r.shuffle(&mut v);
    v.into_iter().take(n).map(|s| s.to_string()).collect()
}

pub fn gen_case(r: &mut Prng, p: &Profile) -> Case {
    let mut tags = vec![];
    // signals
    let n_in = r.below(p.max_inputs) + 1;
    let n_out = r.below(p.max_outputs + 1);
    let n_bi = if p.max_bidir > 0 && r.chance(1, if p.max_bidir >= 2 { 2 } else { 4 }) { r.below(p.max_bidir) + 1 } else { 0 };
    let mut sigs: Vec<SigSpec> = vec![];
    for name in pick_names(r, IN_NAMES, n_in) {
        let bits = *r.pick(p.widths);
        let default = if r.chance(1, 6) { None } else { Some(match r.below(8) { 0..=3 => 0, 4 | 5 => r.below(4) as i64, 6 => -1 - (r.below(3) as i64), _ => r.below(1 << 20) as i64 }) };
        sigs.push(SigSpec { name, bits, dir: Dir::In, default });
    }
    for name in pick_names(r, OUT_NAMES, n_out) {
        sigs.push(SigSpec { name, bits: *r.pick(p.widths), dir: Dir::Out, default: None });
    }
    for name in pick_names(r, BI_NAMES, n_bi) {
        let default = if r.chance(1, 3) { None } else { Some(r.below(2) as i64) };
        sigs.push(SigSpec { name, bits: *r.pick(p.widths), dir: Dir::Bidir, default });
    }
    if n_bi > 0 && r.chance(1, 10) {
        // an input that is literally called `<bidirectional>_out`: its column is an input column and the
        // expected column of the bidirectional signal at the same time
        let b = sigs.iter().find(|s| s.dir == Dir::Bidir).unwrap().name.clone();
        sigs.push(SigSpec { name: format!("{b}_out"), bits: *r.pick(p.widths), dir: Dir::In, default: Some(0) });
    }
    r.shuffle(&mut sigs);

    // virtual signals to declare
    let n_virt = if p.p_declare > 0 && r.chance(1, 3) { r.below(3) + 1 } else { 0 };
    let declared: Vec<String> = pick_names(r, &["V", "W2", "virt", "SUM"], n_virt);

    // a signal literally called `<output>_out` / `<virtual>_out`, with a column, while `<output>` / `<virtual>` has
    // none: it is a signal of its own and not the expected column of anything (only bidirectional signals have one)
    let mut lookalike: Option<(String, String)> = None;
    if r.chance(1, 10) {
        let cands: Vec<String> =
            sigs.iter().filter(|s| s.dir == Dir::Out).map(|s| s.name.clone()).chain(declared.iter().cloned()).collect();
        if !cands.is_empty() {
            let b = r.pick(&cands).clone();
            let nm = format!("{b}_out");
            if !sigs.iter().any(|s| s.name == nm) {
                let is_in = r.chance(1, 2);
                sigs.push(SigSpec {
                    name: nm.clone(),
                    bits: *r.pick(p.widths),
                    dir: if is_in { Dir::In } else { Dir::Out },
                    default: if is_in { Some(0) } else { None },
                });
                lookalike = Some((b, nm));
            }
        }
    }

    // header: columns by name
    let mut cols: Vec<(String, bool, usize)> = vec![]; // (name, is input column, bits)
    for s in &sigs {
        let mut omit = (r.below(100) as u32) < p.p_omit;
        if let Some((b, nm)) = &lookalike {
            if &s.name == b {
                omit = true;
            }
            if &s.name == nm {
                omit = false;
            }
        }
        match s.dir {
            Dir::In => {
                if !omit {
                    cols.push((s.name.clone(), true, s.bits));
                }
            }
            Dir::Out => {
                if !omit {
                    cols.push((s.name.clone(), false, s.bits));
                }
            }
            Dir::Virt => {}
            Dir::Bidir => {
                if !omit {
                    cols.push((s.name.clone(), true, s.bits));
                }
                let out_name = format!("{}_out", s.name);
                let shared = sigs.iter().any(|x| x.name == out_name);
                if !shared && !((r.below(100) as u32) < p.p_omit) {
                    cols.push((out_name, false, s.bits));
                }
            }
        }
    }
    for d in &declared {
        if r.chance(3, 4) && lookalike.as_ref().map(|(b, _)| b != d).unwrap_or(true) {
            cols.push((d.clone(), false, 64));
        }
    }
    if cols.is_empty() {
        let s = &sigs[0];
        cols.push((s.name.clone(), s.dir != Dir::Out, s.bits));
    }
    r.shuffle(&mut cols);

    // extra signals the header never mentions
    if (r.below(100) as u32) < p.p_omit {
        sigs.push(SigSpec { name: "EXTRA_IN".into(), bits: 3, dir: Dir::In, default: Some(if r.chance(1, 2) { 5 } else { 13 }) });
        if r.chance(1, 2) {
            sigs.push(SigSpec { name: "EXTRA_OUT".into(), bits: 9, dir: Dir::Out, default: None });
        }
        r.shuffle(&mut sigs);
    }

    let readable: Vec<String> = sigs
        .iter()
        .filter(|s| s.is_output() && is_ident(&s.name))
        .map(|s| s.name.clone())
        .collect();

    let mut g = Gen {
        r,
        p,
        scopes: vec![vec![]],
        readable,
        reads: vec![],
        header_len: cols.len(),
        col_input: cols.iter().map(|c| c.1).collect(),
        col_bits: cols.iter().map(|c| c.2).collect(),
        budget: 14,
        declared: declared.clone(),
        while_counter: 0,
        rebind_mode: vec![],
    };
    let mut stmts = g.block(p.max_depth, true);
    // make sure every planned declaration happens (a header column of that name needs it)
    while !g.declared.is_empty() {
        let name = g.declared.remove(0);
        let saved = std::mem::take(&mut g.scopes);
        g.scopes = vec![vec![]];
        let d = g.r.below(p.max_expr_depth + 1);
        let e = g.expr(d, false);
        g.scopes = saved;
        let pos = g.r.below(stmts.len() + 1);
        stmts.insert(pos, GStmt::Declare(name, e));
    }
    let reads = g.reads.clone();
    let r = g.r;

    let mut header: Vec<String> = cols.iter().map(|c| c.0.clone()).collect();

    // deliberately broken bindings
    if (r.below(100) as u32) < p.p_bad_bind {
        tags.push("bad-bind");
        match r.below(8) {
            0 => {
                let i = r.below(header.len());
                header[i] = "NOSUCH".into();
            }
            5 | 6 => {
                // a column that merely looks like the `_out` column of a bidirectional (or any) signal
                let base = sigs
                    .iter()
                    .find(|s| s.dir == Dir::Bidir)
                    .or_else(|| sigs.first())
                    .map(|s| s.name.clone())
                    .unwrap_or("P".into());
                let name = match r.below(3) {
                    0 => format!("{base}Q_out"),
                    1 => format!("{base}_out_out"),
                    _ => format!("{base}_OUT"),
                };
                if !header.contains(&name) && !sigs.iter().any(|s| s.name == name) {
                    let i = r.below(header.len());
                    header[i] = name;
                }
            }
            7 => {
                // an expression that reads a declared (virtual) signal: not an output of the device
                if let Some(d) = declared.first() {
                    stmts.push(GStmt::Let("rv".into(), GExpr::Bin("add", Box::new(GExpr::Var(d.clone())), Box::new(GExpr::Num(1)))));
                }
            }
            1 => {
                if let Some(s) = sigs.iter().find(|s| s.dir == Dir::Out) {
                    // duplicate signal
                    let s = s.clone();
                    sigs.push(s);
                }
            }
            2 => {
                // a declared name that is also a real signal
                if let Some(d) = declared.first() {
                    sigs.push(SigSpec { name: d.clone(), bits: 1, dir: Dir::Out, default: None });
                }
            }
            3 => {
                // turn an input into an output: C columns / defaults no longer fit
                if let Some(s) = sigs.iter_mut().find(|s| s.dir == Dir::In) {
                    s.dir = Dir::Out;
                    s.default = None;
                }
            }
            _ => {
                // turn an output into an input: reads no longer fit
                if let Some(s) = sigs.iter_mut().find(|s| s.dir == Dir::Out) {
                    s.dir = Dir::In;
                    s.default = Some(0);
                }
            }
        }
    }

    // driver layout: a subset + permutation of the output-capable signals; read signals are kept
    let mut layout: Vec<SigSpec> = sigs
        .iter()
        .filter(|s| s.is_output())
        .filter(|s| reads.contains(&s.name) || !r.chance(1, 5))
        .cloned()
        .collect();
    if r.chance(1, if p.p_read >= 40 { 8 } else { 25 }) {
        // drop a signal that is read — sometimes all of them: the constructor must fail, naming what is missing
        let all = r.chance(1, 2);
        while let Some(i) = layout.iter().position(|s| reads.contains(&s.name)) {
            layout.remove(i);
            if !tags.contains(&"missing-read") {
                tags.push("missing-read");
            }
            if !all {
                break;
            }
        }
    }
    r.shuffle(&mut layout);
    let fault = if (r.below(100) as u32) < p.p_fault {
        let at = r.below(12);
        Some(if r.chance(1, 2) {
            Fault::Fail(at, 1 + r.below(50) as u32)
        } else {
            Fault::Deviate(at, r.below(5) as u8, r.below(8))
        })
    } else {
        None
    };
    if fault.is_some() {
        tags.push("fault");
    }
    // (never together with a fault plan: the deviation oracles speak about the signals the test knows)
    if fault.is_none() && !layout.is_empty() && r.chance(1, 30) {
        // a driver that reports a signal of the right name but not THAT signal (another width, or a plain output for a
        // bidirectional pin): to the test it is an unknown signal, and the real one is never supplied
        let i = r.below(layout.len());
        if layout[i].dir == Dir::Bidir && r.chance(1, 2) {
            layout[i].dir = Dir::Out;
            layout[i].default = None;
        } else {
            layout[i].bits = layout[i].bits % 64 + 1;
        }
        tags.push("twin-signal");
    }


    let style_seed = r.next_u64();
    let style = Style::random(&mut Prng::new(style_seed ^ 0xABCD));
    Case {
        prog: Prog { header, stmts },
        style_seed,
        style,
        sigs,
        layout,
        own_wo: r.chance(1, 3),
        drv_seed: r.next_u64(),
        fault,
        rng_seed: r.next_u64(),
        p_zx: p.p_zx,
        read_names: reads,
        cap: 400,
        tags,
    }
}

/// a case beyond the usual size bounds: 64 to 70 columns, rows that spread one 64-bit value over 64 of them with
/// `bits(64, e)` (the columns are signals of every width), boundary values for `e`
pub fn gen_wide_case(r: &mut Prng, p: &Profile) -> Case {
    let n = 64 + r.below(7);
    let mut sigs: Vec<SigSpec> = vec![];
    for i in 0..n {
        let is_in = r.chance(1, 2);
        sigs.push(SigSpec {
            name: format!("P{i}"),
            bits: *r.pick(p.widths),
            dir: if is_in { Dir::In } else { Dir::Out },
            default: if is_in { Some(0) } else { None },
        });
    }
    // the last signal is an output that the program reads: read outputs beyond index 63 must be looked after too
    let last = n - 1;
    sigs[last].dir = Dir::Out;
    sigs[last].default = None;
    let read = sigs[last].name.clone();
    let header: Vec<String> = sigs.iter().map(|s| s.name.clone()).collect();
    let mut stmts = vec![GStmt::Let("rd".into(), GExpr::Var(read.clone()))];
    // literals are non-negative: values with bit 63 set are written as `~k`
    let val = |v: i64| if v >= 0 { GExpr::Num(v) } else { GExpr::Un("bnot", Box::new(GExpr::Num(!v))) };
    let vals = [i64::MIN, -1, i64::MIN | 1, i64::MAX, 1i64 << 62, 0x5555_5555_5555_5555, r.next_u64() as i64];
    for _ in 0..(1 + r.below(3)) {
        let v = *r.pick(&vals);
        let mut row = vec![GEntry::Bits(64, val(v))];
        for _ in 64..n {
            row.push(GEntry::Num(r.below(4) as i64));
        }
        // the wide entry need not come first
        if n > 64 && r.chance(1, 2) {
            let last = row.pop().unwrap();
            row.insert(0, last);
        }
        stmts.push(GStmt::Row(row));
    }
    let mut layout: Vec<SigSpec> = sigs.iter().filter(|s| s.is_output()).cloned().collect();
    // now and then the driver does not supply the output that is read (the constructor must fail, naming it)
    let drop_read = r.chance(1, 3);
    if drop_read {
        layout.retain(|s| s.name != read);
    }
    r.shuffle(&mut layout);
    let style_seed = r.next_u64();
    Case {
        prog: Prog { header, stmts },
        style_seed,
        style: Style::random(&mut Prng::new(style_seed ^ 0xABCD)),
        sigs,
        layout,
        own_wo: false,
        drv_seed: r.next_u64(),
        fault: None,
        rng_seed: r.next_u64(),
        p_zx: 0,
        read_names: vec![read],
        cap: 400,
        tags: if drop_read { vec!["wide", "missing-read"] } else { vec!["wide"] },
    }
}

/// A case beyond the usual SIZE bounds of the generator (everything else about it is simple): deep nesting, hundreds
/// of statements and variables, thousands of loop passes, a row with 8..11 `X`, long names, huge expressions, hundreds
/// of rows (line numbers beyond 255), hundreds of columns.  Size-dependent slips — a narrowing cast, a capacity used as
/// a length, an early exit after N items — are realistic and invisible on small inputs.
pub fn gen_scale_case(r: &mut Prng, p: &Profile) -> Case {
    let shape = r.below(10);
    let long = shape == 5;
    let (n_in, n_out) = match shape {
        3 => (9 + r.below(4), 1 + r.below(2)),
        8 => (100 + r.below(200), 30 + r.below(100)),
        _ => (2 + r.below(3), 1 + r.below(3)),
    };
    let wide_first = shape == 9;
    let mut sigs: Vec<SigSpec> = vec![];
    for i in 0..n_in {
        let name = if long { format!("SI{}{i}", "x".repeat(60 + r.below(240))) } else { format!("SI{i}") };
        sigs.push(SigSpec { name, bits: *r.pick(p.widths), dir: Dir::In, default: Some(0) });
    }
    for i in 0..n_out {
        let name = if long { format!("SO{}{i}", "y".repeat(60 + r.below(240))) } else { format!("SO{i}") };
        sigs.push(SigSpec { name, bits: *r.pick(p.widths), dir: Dir::Out, default: None });
    }
    if wide_first {
        sigs[0].bits = 64;
    }
    let mut header: Vec<String> = sigs.iter().map(|s| s.name.clone()).collect();
    r.shuffle(&mut header);
    let first_in = sigs[0].name.clone();
    let is_in = |n: &str| n.starts_with("SI");
    // a row: `lead` in the first input's column, small numbers in the other inputs, X or a bit in the outputs
    let mk_row = |r: &mut Prng, lead: GEntry| -> Vec<GEntry> {
        header
            .iter()
            .map(|n| {
                if *n == first_in {
                    lead.clone()
                } else if is_in(n) {
                    GEntry::Num(r.below(2) as i64)
                } else if r.chance(1, 2) {
                    GEntry::X
                } else {
                    GEntry::Num(r.below(2) as i64)
                }
            })
            .collect()
    };
    let var = |n: &str| GExpr::Var(n.to_string());
    let bin = |op: &'static str, a: GExpr, b: GExpr| GExpr::Bin(op, Box::new(a), Box::new(b));
    let mut stmts: Vec<GStmt> = vec![];
    let mut cap = 400;
    let tag: &'static str;
    match shape {
        0 => {
            tag = "scale-deep";
            let d = 5 + r.below(26);
            let twos = r.below(7);
            // innermost: a row over the sum of all counters
            let mut sum = GExpr::Num(1);
            for l in 0..d {
                sum = bin("add", sum, var(&format!("c{l}")));
            }
            let mut body = vec![GStmt::Let("s".into(), sum), GStmt::Row(mk_row(r, GEntry::Expr(var("s"))))];
            for l in (0..d).rev() {
                let passes = if l < twos { 2 } else { 1 };
                let c = format!("c{l}");
                if r.chance(1, 3) {
                    // `while` opens no scope: its counter is bound right in front of it and rebound inside
                    let mut b = body;
                    b.push(GStmt::Let(c.clone(), bin("add", var(&c), GExpr::Num(1))));
                    body = vec![GStmt::Let(c.clone(), GExpr::Num(0)), GStmt::While(bin("lt", var(&c), GExpr::Num(passes)), b)];
                } else {
                    body = vec![GStmt::Loop(c, GExpr::Num(passes), body)];
                }
                if r.chance(1, 4) {
                    body.push(GStmt::Row(mk_row(r, GEntry::Num(l as i64 & 1))));
                }
            }
            stmts = body;
        }
        1 | 5 => {
            tag = if long { "scale-long-names" } else { "scale-many-lets" };
            let n = if long { 6 + r.below(6) } else { 100 + r.below(300) };
            let vn = |i: usize| if long { format!("v{}{i}", "z".repeat(80 + (i * 37) % 200)) } else { format!("v{i}") };
            stmts.push(GStmt::Let(vn(0), GExpr::Num(1)));
            for i in 1..n {
                let op = *r.pick(&["add", "mul", "xor", "sub"]);
                let other = if r.chance(1, 3) { var(&vn(r.below(i))) } else { GExpr::Num((i as i64) * 7 + 3) };
                stmts.push(GStmt::Let(vn(i), bin(op, var(&vn(i - 1)), other)));
                if i % 50 == 49 || i + 1 == n || (long && r.chance(1, 2)) {
                    let e = bin("xor", var(&vn(i)), var(&vn(i / 2)));
                    stmts.push(GStmt::Row(mk_row(r, GEntry::Expr(e))));
                }
                if i % 100 == 99 || i + 1 == n {
                    // a scope opened and closed on top of all those variables; they are all still there afterwards
                    let inner = vec![
                        GStmt::Let("tmp".into(), bin("add", var(&vn(i)), var("q"))),
                        GStmt::Row(mk_row(r, GEntry::Expr(var("tmp")))),
                    ];
                    stmts.push(GStmt::Loop("q".into(), GExpr::Num(1 + r.below(2) as i64), inner));
                    let e = bin("add", var(&vn(i)), var(&vn(i - 1)));
                    stmts.push(GStmt::Row(mk_row(r, GEntry::Expr(e))));
                }
            }
        }
        2 => {
            tag = "scale-long-loop";
            let n = 300 + r.below(2700) as i64;
            stmts.push(GStmt::Let("acc".into(), GExpr::Num(0)));
            stmts.push(GStmt::Let("w0".into(), GExpr::Num(0)));
            stmts.push(GStmt::While(
                bin("lt", var("w0"), GExpr::Num(n)),
                vec![
                    GStmt::Let("acc".into(), bin("add", bin("mul", var("acc"), GExpr::Num(31)), var("w0"))),
                    GStmt::Let("w0".into(), bin("add", var("w0"), GExpr::Num(1))),
                ],
            ));
            stmts.push(GStmt::Row(mk_row(r, GEntry::Expr(var("acc")))));
            // and a counted loop with a row in every pass: the last rows are the interesting ones
            let m = 260 + r.below(1200) as i64;
            cap = 3000;
            stmts.push(GStmt::Loop("i".into(), GExpr::Num(m), vec![GStmt::Row(mk_row(r, GEntry::Expr(bin("add", var("i"), var("acc")))))]));
            stmts.push(GStmt::Row(mk_row(r, GEntry::Expr(var("w0")))));
        }
        3 => {
            tag = "scale-many-x";
            let k = 8 + r.below(4);
            cap = 7000;
            let mut xs: Vec<usize> = (0..n_in).collect();
            r.shuffle(&mut xs);
            let xs: Vec<String> = xs.into_iter().take(k).map(|i| format!("SI{i}")).collect();
            let clock = r.chance(1, 3);
            let row: Vec<GEntry> = header
                .iter()
                .map(|n| {
                    if xs.contains(n) {
                        GEntry::X
                    } else if is_in(n) {
                        if clock { GEntry::C } else { GEntry::Num(1) }
                    } else {
                        GEntry::X
                    }
                })
                .collect();
            stmts.push(GStmt::Row(row));
            stmts.push(GStmt::Row(mk_row(r, GEntry::Num(1))));
        }
        4 => {
            tag = "scale-repeat";
            let n = 300 + r.below(2700) as i64;
            cap = 3200;
            stmts.push(GStmt::Repeat(GExpr::Num(n), mk_row(r, GEntry::Expr(bin("mul", var("n"), GExpr::Num(3))))));
            stmts.push(GStmt::Row(mk_row(r, GEntry::Num(1))));
        }
        6 => {
            tag = "scale-big-expr";
            let t = 100 + r.below(400);
            let mut e = GExpr::Num(1);
            for i in 0..t {
                let op = *r.pick(&["add", "sub", "xor", "mul", "or", "and"]);
                e = bin(op, e, GExpr::Num((i as i64 * 13 + 5) % 97));
            }
            stmts.push(GStmt::Row(mk_row(r, GEntry::Expr(e))));
            // nested to the right: every level needs its own parentheses
            let d = 30 + r.below(90);
            let mut e = GExpr::Num(2);
            for i in 0..d {
                let op = *r.pick(&["sub", "add", "xor"]);
                e = bin(op, GExpr::Num(i as i64 + 1), e);
            }
            stmts.push(GStmt::Row(mk_row(r, GEntry::Expr(e))));
            let mut e = var("SO0");
            for _ in 0..(20 + r.below(60)) {
                e = GExpr::Un(*r.pick(&["bnot", "neg"]), Box::new(e));
            }
            stmts.push(GStmt::Let("u".into(), e));
            stmts.push(GStmt::Row(mk_row(r, GEntry::Expr(var("u")))));
        }
        7 => {
            tag = "scale-many-rows";
            let n = 260 + r.below(1300);
            cap = 3000;
            for i in 0..n {
                stmts.push(GStmt::Row(mk_row(r, GEntry::Num((i % 2) as i64))));
            }
        }
        9 => {
            tag = "scale-many-draws";
            // hundreds or thousands of draws, then `resetRandom` and the sequence from its start again
            let n = *r.pick(&[254i64, 255, 256, 257, 258, 511, 512, 513, 768, 1023, 1024, 1025]);
            let m = GExpr::Num(1i64 << (10 + r.below(40)));
            let draw = GExpr::Call("random".into(), vec![m.clone()]);
            stmts.push(GStmt::Row(mk_row(r, GEntry::Expr(draw.clone()))));
            stmts.push(GStmt::Reset);
            if r.chance(1, 2) {
                stmts.push(GStmt::Loop("i".into(), GExpr::Num(n), vec![GStmt::Let("t".into(), draw.clone())]));
            } else {
                stmts.push(GStmt::Let("w0".into(), GExpr::Num(0)));
                stmts.push(GStmt::While(
                    bin("lt", var("w0"), GExpr::Num(n)),
                    vec![GStmt::Let("t".into(), draw.clone()), GStmt::Let("w0".into(), bin("add", var("w0"), GExpr::Num(1)))],
                ));
            }
            stmts.push(GStmt::Row(mk_row(r, GEntry::Expr(draw.clone()))));
            stmts.push(GStmt::Reset);
            stmts.push(GStmt::Row(mk_row(r, GEntry::Expr(draw.clone()))));
            stmts.push(GStmt::Row(mk_row(r, GEntry::Expr(draw))));
        }
        _ => {
            tag = "scale-many-columns";
            for i in 0..(1 + r.below(3)) {
                stmts.push(GStmt::Row(mk_row(r, GEntry::Num(i as i64 & 1))));
            }
        }
    }
    let mut layout: Vec<SigSpec> = sigs.iter().filter(|s| s.is_output()).cloned().collect();
    r.shuffle(&mut layout);
    let style_seed = r.next_u64();
    Case {
        prog: Prog { header, stmts },
        style_seed,
        style: Style::random(&mut Prng::new(style_seed ^ 0xABCD)),
        sigs,
        layout,
        own_wo: r.chance(1, 2),
        drv_seed: r.next_u64(),
        fault: None,
        rng_seed: r.next_u64(),
        p_zx: 0,
        read_names: if shape == 6 { vec!["SO0".to_string()] } else { vec![] },
        cap,
        tags: vec!["scale", tag],
    }
}

/// value the driver reports for `sig` (deterministic in the seed, the call index and the signal)
pub fn driver_value(seed: u64, call: usize, sig: &SigSpec, keep_numeric: bool, p_zx: u32) -> Option<Result<i64, bool>> {
    // Ok(n) = number, Err(false) = Z, Err(true) = X
    let mut r = Prng::new(seed ^ (call as u64).wrapping_mul(0x1000_0001) ^ {
        let mut h: u64 = 1469598103934665603;
        for b in sig.name.bytes() {
            h = (h ^ b as u64).wrapping_mul(1099511628211);
        }
        h
    });
    let zx = if keep_numeric { p_zx / 8 } else { p_zx };
    if (r.below(100) as u32) < zx {
        return Some(Err(r.chance(1, 2)));
    }
    let v = match r.below(6) {
        0 => any_i64(&mut r),
        1 => call as i64,
        _ => {
            let m = if sig.bits >= 63 { i64::MAX } else { (1i64 << sig.bits) - 1 };
            (r.next_u64() as i64) & m
        }
    };
    Some(Ok(v))
}

impl<'a> Gen<'a> {
    /// a generator for stand-alone expressions over the given variables
    pub fn for_exprs(r: &'a mut Prng, p: &'a Profile, vars: &[&str]) -> Gen<'a> {
        Gen {
            r,
            p,
            scopes: vec![vars.iter().map(|v| v.to_string()).collect()],
            readable: vec![],
            reads: vec![],
            header_len: 0,
            col_input: vec![],
            col_bits: vec![],
            budget: 0,
            declared: vec![],
            while_counter: 0,
            rebind_mode: vec![],
        }
    }
}

/// an expression as text, with the style's parentheses / radix / spacing
pub fn print_expr(e: &GExpr, r: &mut Prng, st: &Style) -> String {
    let mut toks = vec![];
    expr_tokens(e, r, st, &mut toks);
    let mut out = String::new();
    let mut prev: Option<String> = None;
    for t in toks {
        if let Some(p) = &prev {
            if (wordy(p) && wordy(&t)) || (!st.tight && r.chance(1, 3)) {
                out.push(' ');
            }
        }
        out.push_str(&t);
        prev = Some(t);
    }
    out
}
