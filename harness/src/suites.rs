//! The suites (case streams + judges) behind every property check.
use crate::gen::*;
use crate::imp::{self, Resp};
use crate::oracle::*;
use crate::prng::{any_i64, Prng, BOUNDARY};
use crate::{fnv, Ctx, Finding};

fn case_seed(master: u64, suite: &str, idx: u64) -> u64 {
    let mut p = Prng::new(master ^ fnv(suite).rotate_left(17) ^ idx.wrapping_mul(0x9E37_79B9_7F4A_7C15));
    p.next_u64()
}

pub fn describe_case(case: &Case, src: &str) -> String {
    let sigs: Vec<String> = case
        .sigs
        .iter()
        .map(|s| {
            format!(
                "{}:{}:{}:{}",
                s.name,
                s.bits,
                match s.dir {
                    Dir::In => "in",
                    Dir::Out => "out",
                    Dir::Bidir => "bidir",
                    Dir::Virt => "virt",
                },
                s.default.map(|n| n.to_string()).unwrap_or("Z".into())
            )
        })
        .collect();
    let layout: Vec<&str> = case.layout.iter().map(|s| s.name.as_str()).collect();
    format!(
        "signals=[{}] driver_layout=[{}] own_write_input={} fault={:?} drv_seed={} rng_seed={}\n--- source ---\n{}\n--- end ---",
        sigs.join(" "),
        layout.join(" "),
        case.own_wo,
        case.fault,
        case.drv_seed,
        case.rng_seed,
        src
    )
}

fn profile_for(prop: &str) -> Profile {
    let mut p = Profile::default_run();
    match prop {
        "C01" => {
            p.p_loop = 18;
            p.p_repeat = 8;
            p.p_while = 12;
            p.p_let = 22;
            p.p_fault = 2;
            p.p_bad_bind = 1;
            p.p_shadow = 10;
        }
        "C02" => {
            p.p_c = 18;
            p.p_x = 12;
            p.p_fault = 15;
        }
        "C03" => {
            p.max_outputs = 5;
            p.p_zx = 20;
            p.p_wide = 50;
            p.p_fault = 3;
        }
        "C04" => {
            p.p_read = 45;
            p.p_let = 25;
            p.p_zx = 10;
            p.max_outputs = 4;
        }
        "C05" => {
            p.p_c = 22;
            p.p_x = 22;
            p.p_z = 8;
            p.max_inputs = 4;
            p.max_bidir = 2;
            p.p_fault = 1;
        }
        "C06" => {
            p.p_omit = 35;
            p.max_bidir = 2;
            p.max_inputs = 4;
            p.max_outputs = 4;
        }
        "C07" => {
            p.p_wide = 80;
            p.p_expr = 40;
            p.p_fault = 0;
            p.widths = &[1, 2, 3, 7, 8, 15, 16, 31, 32, 33, 47, 62, 63, 64];
        }
        "C10" => {
            p.p_div = 25;
            p.p_random = 10;
            p.p_shadow = 15;
            p.p_zx = 15;
            p.p_wide = 50;
            p.p_bits = 12;
            p.p_fault = 10;
        }
        "C11" => {
            p.max_bidir = 2;
            p.p_bad_bind = 45;
            p.p_omit = 25;
            p.p_shadow = 12;
            p.p_declare = 10;
        }
        "C13" => {
            p.p_fault = 100;
            p.p_c = 12;
            p.p_omit = 35;
            p.max_outputs = 4;
        }
        "C14" => {
            p.p_declare = 25;
            p.p_read = 35;
            p.p_zx = 15;
            p.p_shadow = 15;
        }
        "C15" => {
            p.p_declare = 15;
            p.p_read = 6;
            p.p_fault = 2;
        }
        "C17" => {
            p.p_random = 30;
            p.p_reset = 12;
            p.p_fault = 0;
        }
        "C08" => {
            // lazy `ite` shows in the draws of `random` in the branch not taken
            p.p_random = 20;
            p.p_expr = 55;
            p.max_expr_depth = 4;
            p.p_fault = 0;
        }
        "C18" => {
            p.p_let = 30;
            p.p_loop = 18;
            p.p_shadow = 12;
            p.p_declare = 10;
        }
        _ => {}
    }
    p
}

fn declared_of(case: &Case) -> Vec<String> {
    let mut d = vec![];
    collect_declares(&case.prog.stmts, &mut d);
    d.into_iter().map(|x| x.0).collect()
}

fn add_finding(ctx: &mut Ctx, kind: &'static str, suite: &str, cs: u64, what: String, text: String, imp: &[String], m: &[String]) {
    if ctx.too_many() && kind != "known" {
        return;
    }
    ctx.report.findings.push(Finding {
        kind,
        suite: suite.to_string(),
        case_seed: cs,
        what,
        case_text: text,
        imp: imp.to_vec(),
        model: m.to_vec(),
    });
}

pub fn case_seed_pub(master: u64, suite: &str, idx: u64) -> u64 {
    case_seed(master, suite, idx)
}
pub fn first_diff_pub(a: &[String], b: &[String]) -> String {
    first_diff(a, b)
}

fn first_diff(a: &[String], b: &[String]) -> String {
    for k in 0..a.len().max(b.len()) {
        let x = a.get(k).cloned().unwrap_or("<nothing>".into());
        let y = b.get(k).cloned().unwrap_or("<nothing>".into());
        if x != y {
            return format!("first difference at line {k}: implementation `{x}` / model `{y}`");
        }
    }
    "no difference".into()
}

/// features of a run, for the histogram and the non-triviality rule
fn features(case: &Case, lines: &[String]) -> Vec<&'static str> {
    let mut f = vec![];
    let rows = lines.iter().filter(|l| l.starts_with("item ") && item_kind(l) == "row").count();
    if rows > 0 {
        f.push("rows>0");
    }
    if rows > 10 {
        f.push("rows>10");
    }
    if rows > 255 {
        f.push("rows>255");
    }
    for t in &case.tags {
        if t.starts_with("scale") || *t == "wide" || *t == "echo-virtual" {
            f.push(t);
        }
    }
    if lines.iter().any(|l| l.starts_with("parse ok")) {
        f.push("parse-ok");
    } else {
        f.push("parse-err");
    }
    if lines.iter().any(|l| l.starts_with("bind ok")) {
        f.push("bind-ok");
    } else if lines.iter().any(|l| l.starts_with("bind err")) {
        f.push("bind-err");
    }
    if lines.iter().any(|l| l.starts_with("ctor err")) {
        f.push("ctor-err");
    }
    if lines.iter().any(|l| l.contains(" err runtime")) {
        f.push("runtime-error-item");
    }
    if lines.iter().any(|l| l.contains(" err driver")) {
        f.push("driver-error-item");
    }
    if lines.iter().any(|l| l.starts_with("call wo")) {
        f.push("write-only-call");
    }
    if lines.iter().any(|l| l.ends_with(" cap")) {
        f.push("capped");
    }
    fn walk(stmts: &[GStmt], f: &mut Vec<&'static str>, depth: usize) {
        for s in stmts {
            match s {
                GStmt::Loop(_, _, b) => {
                    f.push("loop");
                    if depth >= 1 {
                        f.push("nested-block");
                    }
                    walk(b, f, depth + 1)
                }
                GStmt::While(_, b) => {
                    f.push("while");
                    if depth >= 1 {
                        f.push("nested-block");
                    }
                    walk(b, f, depth + 1)
                }
                GStmt::Repeat(_, r) => {
                    f.push("repeat");
                    row_feats(r, f)
                }
                GStmt::Row(r) => row_feats(r, f),
                GStmt::Let(..) => f.push("let"),
                GStmt::Reset => f.push("resetRandom"),
                GStmt::Declare(..) => f.push("declare"),
            }
        }
    }
    fn row_feats(r: &[GEntry], f: &mut Vec<&'static str>) {
        for e in r {
            match e {
                GEntry::C => f.push("C"),
                GEntry::X => f.push("X"),
                GEntry::Z => f.push("Z"),
                GEntry::Bits(..) => f.push("bits"),
                GEntry::Expr(_) => f.push("expr-entry"),
                _ => {}
            }
        }
    }
    walk(&case.prog.stmts, &mut f, 0);
    let mut dump = String::new();
    let mut it = [0usize; 0].iter();
    dump_stmts(&case.prog.stmts, &mut it, &mut dump);
    let mut decl = vec![];
    collect_declares(&case.prog.stmts, &mut decl);
    for (_, e) in &decl {
        dump_expr(e, &mut dump);
    }
    if dump.contains(&format!("(call {}", hex("random"))) {
        f.push("random");
    }
    if dump.contains(&format!("(call {}", hex("ite"))) {
        f.push("ite");
    }
    if !case.read_names.is_empty() {
        f.push("reads-output");
    }
    if case.fault.is_some() {
        f.push("fault-plan");
    }
    if case.sigs.iter().any(|s| s.dir == Dir::Bidir) {
        f.push("bidirectional");
    }
    f.sort();
    f.dedup();
    f
}

fn nontrivial_for(prop: &str, feats: &[&'static str]) -> bool {
    let has = |x: &str| feats.contains(&x);
    match prop {
        "C01" => has("rows>0") && (has("loop") || has("while") || has("repeat") || has("let")),
        "C02" => has("rows>0"),
        "C03" => has("rows>0"),
        "C04" => has("rows>0") && has("reads-output"),
        "C05" => has("rows>0") && (has("C") || has("X")),
        "C06" => has("rows>0"),
        "C07" => has("rows>0"),
        "C10" => has("bind-ok"),
        "C11" => has("parse-ok"),
        "C13" => has("fault-plan") && has("bind-ok"),
        "C14" => has("rows>0") && has("declare"),
        "C17" => has("rows>0") && has("random"),
        "C18" => has("rows>0") && (has("let") || has("loop")),
        _ => has("parse-ok"),
    }
}

/// end-to-end suite: generated (program, signal list, driver plan) → implementation vs model, plus
/// the trace oracles of the property
pub fn suite_run(ctx: &mut Ctx, suite: &str, n: u64) {
    if ctx.only_suite.as_deref().map(|s| s != suite).unwrap_or(false) {
        return;
    }
    let prop = ctx.prop.clone();
    let prof = profile_for(&prop);
    for idx in 0..n {
        let cs = case_seed(ctx.seed, suite, idx);
        if ctx.only_case.map(|c| c != cs).unwrap_or(false) {
            continue;
        }
        if ctx.too_many() {
            break;
        }
        let mut cr = Prng::new(cs);
        // now and then a case beyond the usual size bounds (64+ columns, `bits(64, …)`)
        let case = if idx % 97 == 41 {
            gen_wide_case(&mut cr, &prof)
        } else if idx % 97 == 73 {
            gen_scale_case(&mut cr, &prof)
        } else {
            gen_case(&mut cr, &prof)
        };
        let mut case = case;
        if prop == "C14" && idx % 5 == 3 && case.fault.is_none() {
            // a driver that answers for EVERY signal of the test that is no input — the declared ones included
            let mut decl = vec![];
            collect_declares(&case.prog.stmts, &mut decl);
            if !decl.is_empty() {
                case.tags.push("echo-virtual");
            }
        }
        let printed = print(&case.prog, &mut Prng::new(case.style_seed), &case.style);
        judge_run_case(ctx, suite, cs, &case, &printed.text, Some(&printed));
    }
}

/// the model's answer to a run request: what comes before the `posterr` marker, and what comes after it
pub fn split_post(m: Vec<String>) -> (Vec<String>, Vec<String>) {
    match m.iter().position(|l| l == "posterr") {
        Some(i) => (m[..i].to_vec(), m[i + 1..].to_vec()),
        None => (m, vec![]),
    }
}

pub fn judge_run_case(ctx: &mut Ctx, suite: &str, cs: u64, case: &Case, src: &str, printed: Option<&Printed>) {
    let prop = ctx.prop.clone();
    ctx.tick(&describe_case(case, src));
    let run = imp::run_dynamic(case, src);
    let req = imp::enc_run_request(src, &case.sigs, case.own_wo, &run.script, &run.epochs, case.cap, false);
    let (m, m_tail) = split_post(ctx.model.ask(&req));
    ctx.report.evaluations += 1;
    let key = fnv(&format!("{src}|{:?}|{:?}|{}", case.sigs, case.fault, case.drv_seed));
    ctx.report.distinct.insert(key);
    let feats = features(case, &run.lines);
    for f in &feats {
        ctx.report.bump(f);
    }
    // where the evaluation errors of this run struck (reported by the model driver): kind of statement @ nesting depth
    for l in m.iter().chain(m_tail.iter()) {
        if let Some(site) = l.strip_prefix("# errsite ") {
            ctx.report.bump(&format!("eval-error-at:{site}"));
        }
    }
    if nontrivial_for(&prop, &feats) {
        ctx.report.nontrivial.insert(key);
    }
    if ctx.report.samples.len() < 3 && nontrivial_for(&prop, &feats) {
        ctx.report.samples.push(describe_case(case, src));
    }
    let text = describe_case(case, src);
    // implementation vs model on the property-relevant observables
    let (pi, pm) = (project(&prop, &run.lines), project(&prop, &m));
    if pi != pm {
        add_finding(ctx, "model", suite, cs, first_diff(&pi, &pm), text.clone(), &run.lines, &m);
    } else if !run.tail_lines.is_empty() || !m_tail.is_empty() {
        // behind the first error item: the run is continued behind every error item (the state the model returns
        // there is the one the code is left in, Model/AfterError); compared on the same observables
        ctx.report.bump("continued-after-error");
        if run.lines.iter().rev().find(|l| l.starts_with("item ")).map(|l| l.contains(" err runtime")).unwrap_or(false)
            && !run.lines.iter().rev().skip_while(|l| !l.starts_with("item ")).nth(1).map(|l| l.starts_with("call ")).unwrap_or(false)
        {
            ctx.report.bump("continued-after-eval-error");
        }
        if run.tail_lines.iter().any(|l| l.starts_with("item ") && l.contains(" row ")) {
            ctx.report.bump("rows-behind-error-item");
        }
        // C10 is the home of "what a caller who goes on behind an error item gets": there the rows themselves are
        // compared (lines, inputs, expected values, `vars()` — C01's projection), not only the kinds of the items
        let tail_prop = if prop == "C10" { "C01".to_string() } else { prop.clone() };
        let (ti, tm) = (project(&tail_prop, &run.tail_lines), project(&tail_prop, &m_tail));
        if ti != tm {
            let mut il = run.lines.clone();
            il.push("# --- behind the first error item ---".into());
            il.extend(run.tail_lines.iter().cloned());
            let mut ml = m.clone();
            ml.push("# --- behind the first error item ---".into());
            ml.extend(m_tail.iter().cloned());
            add_finding(ctx, "model", suite, cs, format!("behind the first error item: {}", first_diff(&ti, &tm)), text.clone(), &il, &ml);
        }
    }
    // the static twin: a program that reads no outputs can also be iterated without a driver; those rows are part of
    // what the row-oriented properties speak about (same inputs, expected entries and lines)
    if matches!(prop.as_str(), "C01" | "C05" | "C06" | "C14" | "C17" | "C19") && case.fault.is_none() {
        let reads_empty = run.lines.iter().find(|l| l.starts_with("bind ok")).map(|l| l.contains(" reads=[] ")).unwrap_or(false);
        if reads_empty {
            if let Some((sl, sepochs, spanic)) = imp::run_static_case(case, src) {
                let req = imp::enc_run_request(src, &case.sigs, false, &[], &sepochs, case.cap, true);
                let ms_all = ctx.model.ask(&req);
                let ms: Vec<String> = significant(&ms_all).into_iter().filter(|l| l.starts_with("static") || l.starts_with("sitem") || l == "posterr").collect();
                ctx.report.bump("static-twin");
                if significant(&sl) != ms {
                    add_finding(ctx, "model", suite, cs, format!("static iteration: {}", first_diff(&significant(&sl), &ms)), text.clone(), &sl, &ms_all);
                }
                if spanic {
                    add_finding(ctx, "oracle", suite, cs, format!("static iteration panicked: {sl:?}"), text.clone(), &sl, &ms_all);
                }
            }
        }
    }
    // the property judged on the implementation's own trace
    let declared = declared_of(case);
    let mut verdicts: Vec<Result<(), String>> = vec![];
    // corpus cases come as raw text: oracles that need the generating AST do not apply to them
    let has_ast = !case.prog.header.is_empty();
    match prop.as_str() {
        "C03" | "C06" | "C13" | "C19" if !has_ast => {
            if prop == "C13" {
                verdicts.push(oracle_c13(case, &run.lines, &run.script));
            }
        }
        "C02" => verdicts.push(oracle_c02(case, &run.post_lines)),
        "C03" => verdicts.push(oracle_c03(case, &run.lines, &run.script, &declared)),
        "C06" => verdicts.push(oracle_c06(case, &run.post_lines, &declared)),
        "C10" => verdicts.push(oracle_no_panic(&run.post_lines)),
        "C13" => {
            verdicts.push(oracle_c13(case, &run.lines, &run.script));
            verdicts.push(oracle_c03(case, &run.lines, &run.script, &declared));
            verdicts.push(prefix_equals_fault_free(case, src, &run.lines));
        }
        "C19" => {
            if let Some(p) = printed {
                verdicts.push(oracle_c19_rows(&run.lines, &p.row_lines));
            }
        }
        "C17" => verdicts.push(oracle_c17(&run.rng_log)),
        _ => {}
    }
    // nothing may ever panic, whatever the property
    if prop != "C10" && run.panicked {
        verdicts.push(Err(format!("panic in the implementation: {:?}", run.lines.iter().find(|l| l.contains(" panic")))));
    }
    for v in verdicts {
        if let Err(what) = v {
            add_finding(ctx, "oracle", suite, cs, what, text.clone(), &run.lines, &m);
        }
    }
    let _ = Resp::Fail(0);
}

/// C13 — everything before the faulting call equals the fault-free run
fn prefix_equals_fault_free(case: &Case, src: &str, lines: &[String]) -> Result<(), String> {
    let Some(fault) = &case.fault else { return Ok(()) };
    let at = match fault {
        Fault::Fail(at, _) => *at,
        Fault::Deviate(at, _, _) => *at,
    };
    let mut clean = case.clone();
    clean.fault = None;
    let base = imp::run_dynamic(&clean, src);
    let a = significant(lines);
    let b = significant(&base.lines);
    // compare up to (excluding) the line of call number `at`
    let mut calls = 0;
    for (k, l) in a.iter().enumerate() {
        if l.starts_with("call ") {
            if calls == at {
                return Ok(());
            }
            calls += 1;
        }
        if b.get(k) != Some(l) {
            return Err(format!(
                "before the fault (call {at}) the run differs from the fault-free run at line {k}: `{l}` vs `{}`",
                b.get(k).cloned().unwrap_or_default()
            ));
        }
    }
    Ok(())
}

/// C19 — every yielded row's line is the line the printer put a data row on
fn oracle_c19_rows(lines: &[String], row_lines: &[usize]) -> Result<(), String> {
    for l in significant(lines) {
        if l.starts_with("item ") && item_kind(&l) == "row" {
            let n: usize = field(&l, "line").and_then(|s| s.parse().ok()).unwrap_or(0);
            if !row_lines.contains(&n) {
                return Err(format!("row reports line {n}, but the data rows are on lines {row_lines:?}"));
            }
        }
    }
    Ok(())
}

// ---------------------------------------------------------------------------------------------
// text-level suites (parser front end)

fn expected_dump(prog: &Prog, printed: &Printed) -> String {
    let mut out = String::new();
    let mut it = printed.row_lines.iter();
    dump_stmts(&prog.stmts, &mut it, &mut out);
    out
}

fn parse_profile() -> Profile {
    let mut p = Profile::default_run();
    p.max_expr_depth = 4;
    p.p_expr = 45;
    p.p_random = 6;
    p.max_stmts = 9;
    p.p_bad_bind = 0;
    p
}

fn ask_parse(ctx: &mut Ctx, src: &str) -> Vec<String> {
    ctx.model.ask(&format!("parse {}", hex(src)))
}

pub fn span_problem_pub(src: &str, line: &str) -> Option<String> {
    span_problem(src, line)
}

fn span_problem(src: &str, line: &str) -> Option<String> {
    // `parse err [(s e) (s e)]`
    let l = line.strip_prefix("parse err ")?;
    let inner = l.trim_start_matches('[').trim_end_matches(']');
    if inner.is_empty() {
        return None;
    }
    for part in inner.split(") (") {
        let part = part.trim_matches(|c| c == '(' || c == ')');
        let mut it = part.split(' ');
        let s: usize = it.next()?.parse().ok()?;
        let e: usize = it.next()?.parse().ok()?;
        if !(s <= e && e <= src.len() && src.is_char_boundary(s) && src.is_char_boundary(e)) {
            return Some(format!("span {s}..{e} is not inside the {} byte source on character boundaries", src.len()));
        }
    }
    None
}

fn render_error(src: &str) -> Result<(), String> {
    use digital_test_runner::ParsedTestCase;
    let r = std::panic::catch_unwind(|| match src.parse::<ParsedTestCase>() {
        Ok(_) => {}
        Err(e) => {
            let rep = miette::Report::new(e).with_source_code(src.to_string());
            let _ = format!("{rep:?}");
        }
    });
    r.map_err(|_| format!("rendering the parse error as a diagnostic panicked: {}", imp::take_panic()))
}

/// valid programs printed in random layouts: AST round trip (C08), line numbers (C19), verdicts (C12)
pub fn suite_text_valid(ctx: &mut Ctx, suite: &str, n: u64) {
    if ctx.only_suite.as_deref().map(|s| s != suite).unwrap_or(false) {
        return;
    }
    let prop = ctx.prop.clone();
    let prof = parse_profile();
    for idx in 0..n {
        let cs = case_seed(ctx.seed, suite, idx);
        if ctx.only_case.map(|c| c != cs).unwrap_or(false) {
            continue;
        }
        if ctx.too_many() {
            break;
        }
        let mut cr = Prng::new(cs);
        let case = gen_case(&mut cr, &prof);
        let printed = print(&case.prog, &mut Prng::new(case.style_seed), &case.style);
        let src = &printed.text;
        ctx.tick(src);
        let (il, parsed) = imp::parse_line(src);
        let m = ask_parse(ctx, src);
        ctx.report.evaluations += 1;
        let key = fnv(src);
        ctx.report.distinct.insert(key);
        ctx.report.bump(if parsed.is_some() { "parse-ok" } else { "parse-err" });
        ctx.report.nontrivial.insert(key);
        if ctx.report.samples.len() < 3 {
            ctx.report.samples.push(src.clone());
        }
        let il = vec![il];
        let (pi, pm) = (project(&prop, &il), project(&prop, &m));
        if pi != pm {
            add_finding(ctx, "model", suite, cs, first_diff(&pi, &pm), src.clone(), &il, &m);
        }
        // oracle: the parse is the generating AST, with the printer's line numbers
        if il[0].starts_with("parse panic") {
            add_finding(ctx, "oracle", suite, cs, format!("parser panicked: {}", il[0]), src.clone(), &il, &m);
            continue;
        }
        let want = expected_dump(&case.prog, &printed);
        let got = il[0].find(" stmts=").map(|i| {
            let j = il[0].find(" sigspans=").unwrap_or(il[0].len());
            il[0][i + 7..j].to_string()
        });
        match got {
            None => add_finding(ctx, "oracle", suite, cs, format!("a valid program was rejected: {}", il[0]), src.clone(), &il, &m),
            Some(g) if g != want => {
                let what = if strip_lines(&g) == strip_lines(&want) {
                    "line numbers of data rows differ from the lines the printer put them on".to_string()
                } else {
                    "the parsed expression / statement tree is not the tree that was printed".to_string()
                };
                // C19 judges the lines, C08 / C12 / C20 the tree
                let relevant = match prop.as_str() {
                    "C19" => true,
                    _ => strip_lines(&g) != strip_lines(&want),
                };
                if relevant {
                    add_finding(ctx, "oracle", suite, cs, format!("{what}\nwant {want}\ngot  {g}"), src.clone(), &il, &m);
                }
            }
            _ => {}
        }
    }
}

fn strip_lines(dump: &str) -> String {
    // `(row 12 ` → `(row `
    let mut out = String::new();
    let mut rest = dump;
    while let Some(i) = rest.find("(row ") {
        out.push_str(&rest[..i + 5]);
        rest = &rest[i + 5..];
        let j = rest.find(|c: char| !c.is_ascii_digit()).unwrap_or(rest.len());
        rest = &rest[j..];
    }
    out.push_str(rest);
    out
}

/// single grammar-breaking edits of valid programs (C12), any text at all (C09)
pub fn suite_text_mutants(ctx: &mut Ctx, suite: &str, n: u64) {
    if ctx.only_suite.as_deref().map(|s| s != suite).unwrap_or(false) {
        return;
    }
    let prop = ctx.prop.clone();
    let prof = parse_profile();
    for idx in 0..n {
        let cs = case_seed(ctx.seed, suite, idx);
        if ctx.only_case.map(|c| c != cs).unwrap_or(false) {
            continue;
        }
        if ctx.too_many() {
            break;
        }
        let mut cr = Prng::new(cs);
        let case = gen_case(&mut cr, &prof);
        let mut style = Style::plain();
        style.trailing_newline = cr.chance(1, 2);
        style.crlf = cr.chance(1, 8);
        let (src, invalid_by_construction, label) = mutate(&case.prog, &mut cr, &style);
        ctx.tick(&src);
        let (il, _) = imp::parse_line(&src);
        let m = ask_parse(ctx, &src);
        ctx.report.evaluations += 1;
        let key = fnv(&src);
        ctx.report.distinct.insert(key);
        ctx.report.nontrivial.insert(key);
        ctx.report.bump(label);
        ctx.report.bump(if il.starts_with("parse ok") { "parse-ok" } else if il.starts_with("parse err") { "parse-err" } else { "parse-panic" });
        if ctx.report.samples.len() < 3 {
            ctx.report.samples.push(format!("[{label}] {src}"));
        }
        let il = vec![il];
        let (pi, pm) = (project(&prop, &il), project(&prop, &m));
        if pi != pm {
            add_finding(ctx, "model", suite, cs, first_diff(&pi, &pm), src.clone(), &il, &m);
        }
        if il[0].starts_with("parse panic") {
            add_finding(ctx, "oracle", suite, cs, format!("parser panicked on [{label}]: {}", il[0]), src.clone(), &il, &m);
        } else if invalid_by_construction && il[0].starts_with("parse ok") {
            add_finding(ctx, "oracle", suite, cs, format!("a malformed program ([{label}]) was accepted"), src.clone(), &il, &m);
        }
        if let Some(p) = span_problem(&src, &il[0]) {
            add_finding(ctx, "oracle", suite, cs, p, src.clone(), &il, &m);
        }
        if prop == "C09" {
            if let Err(e) = render_error(&src) {
                add_finding(ctx, "oracle", suite, cs, e, src.clone(), &il, &m);
            }
            // the model's spans must be the implementation's (C09 is about locations)
            if significant(&il) != significant(&m) && il[0].starts_with("parse err") {
                add_finding(ctx, "model", suite, cs, first_diff(&significant(&il), &significant(&m)), src.clone(), &il, &m);
            }
        }
    }
}

const RAW_ATOMS: &[&str] = &[
    "A", "B", "0", "1", "0x1F", "0xg", "0b2", "08", "07", " ", "  ", "\t", "\r", "\n", "\r\n", "(", ")", ",", ";", "<<", "<", "<=", "=",
    "!=", "!", "~", "-", "+", "*", "/", "%", "&", "|", "^", ">", ">>", ">=", "end", "loop", "while", "repeat", "bits", "let",
    "declare", "resetRandom", "program", "init", "memory", "def", "call", "end1", "looper", "C", "x", "Z", "c", "é", "٣", "a٣", "$",
    "#", "# c\n", "random", "ite", "signExt", "n", "99999999999999999999", "9223372036854775807", "9223372036854775808",
    "0x8000000000000000", "0b", "0x", "_", "\u{b}", "\u{feff}", "\u{c}", "bits(65,1)", "bits(64,1)", "loop(i,2)\n", "end loop\n",
    "while(1)\n", "end while\n", "A B\n", "(1 ! 2)", "f(1)", "ite(1,2)", "random()", "((", "))", "\u{a0}", "\u{3000}", "\u{2028}", "\u{85}",
    "A\u{a0}B", "1 ~ 2", "3 !1", "repeat(3) \n", "repeat(2)\t\r\n", "\u{feff}A A\n",
];

/// arbitrary text over an alphabet rich in token boundaries
pub fn suite_text_raw(ctx: &mut Ctx, suite: &str, n: u64) {
    if ctx.only_suite.as_deref().map(|s| s != suite).unwrap_or(false) {
        return;
    }
    let prop = ctx.prop.clone();
    for idx in 0..n {
        let cs = case_seed(ctx.seed, suite, idx);
        if ctx.only_case.map(|c| c != cs).unwrap_or(false) {
            continue;
        }
        if ctx.too_many() {
            break;
        }
        let mut r = Prng::new(cs);
        let mut src = String::new();
        if r.chance(3, 4) {
            src.push_str(*r.pick(&["A B\n", "A\n", "\n\nA B C\n", "A B", "é B\r\n"]));
        }
        let k = r.below(14);
        for _ in 0..k {
            if r.chance(1, 12) {
                // a long name with digits of one, two, three and four bytes (identifiers may contain any Unicode `Nd`):
                // 20 to 70 bytes, so that every byte offset up to there falls inside a character for some name —
                // as a variable, or in front of `(` as the name of a function that does not exist
                let target = 20 + r.below(51) as usize;
                let mut name = String::from(*r.pick(&["v", "f", "_", "Q"]));
                while name.len() < target {
                    name.push_str(*r.pick(&["a", "7", "_", "\u{663}", "\u{967}", "\u{1D7CE}", "\u{663}", "\u{967}"]));
                }
                src.push_str(&name);
                if r.chance(1, 2) {
                    src.push_str(*r.pick(&["(", "(1)", "(1,2);", " (3)"]));
                }
            } else {
                src.push_str(*r.pick(RAW_ATOMS));
            }
            if r.chance(1, 3) {
                src.push(' ');
            }
        }
        ctx.tick(&src);
        let (il, _) = imp::parse_line(&src);
        let m = ask_parse(ctx, &src);
        ctx.report.evaluations += 1;
        let key = fnv(&src);
        ctx.report.distinct.insert(key);
        if src.len() > 4 {
            ctx.report.nontrivial.insert(key);
        }
        ctx.report.bump(if il.starts_with("parse ok") { "parse-ok" } else if il.starts_with("parse err") { "parse-err" } else { "parse-panic" });
        if ctx.report.samples.len() < 3 {
            ctx.report.samples.push(src.clone());
        }
        let il = vec![il];
        // raw text has no generating AST: full comparison of verdict, AST and spans with the model
        let (a, b) = (significant(&il), significant(&m));
        let (pa, pb) = if prop == "C09" { (a, b) } else { (project(&prop, &il), project(&prop, &m)) };
        if pa != pb {
            add_finding(ctx, "model", suite, cs, first_diff(&pa, &pb), src.clone(), &il, &m);
        }
        if il[0].starts_with("parse panic") {
            add_finding(ctx, "oracle", suite, cs, format!("parser panicked: {}", il[0]), src.clone(), &il, &m);
        }
        if let Some(p) = span_problem(&src, &il[0]) {
            add_finding(ctx, "oracle", suite, cs, p, src.clone(), &il, &m);
        }
        if prop == "C09" {
            if let Err(e) = render_error(&src) {
                add_finding(ctx, "oracle", suite, cs, e, src.clone(), &il, &m);
            }
        }
    }
}

/// Exhaustive small scope for the row machinery: every header of 1..=3 columns with every assignment of
/// input / output to the columns, every order of the signal list, and every row over {1, X, Z, C} — the row
/// twice in a row (so that the previous-row state matters) — run against a scripted driver and compared
/// with the model item by item and call by call, plus the property's trace oracles.
pub fn suite_rows_enum(ctx: &mut Ctx, suite: &str) {
    if ctx.only_suite.as_deref().map(|s| s != suite).unwrap_or(false) {
        return;
    }
    let atoms = ["1", "X", "Z", "C"];
    let perms: [&[usize]; 6] = [&[0, 1, 2], &[0, 2, 1], &[1, 0, 2], &[1, 2, 0], &[2, 0, 1], &[2, 1, 0]];
    let mut idx: u64 = 0;
    let mut total: u64 = 0;
    for k in 1..=3usize {
        for kinds in 0..(1u32 << k) {
            for perm in perms.iter() {
                // permutations of the first k positions only
                if perm.iter().take(k).any(|&p| p >= k) || perm.iter().skip(k).zip(k..3).any(|(&p, i)| p != i) {
                    continue;
                }
                for code in 0..(4u32.pow(k as u32)) {
                    idx += 1;
                    let cs = case_seed(0, suite, idx);
                    if let Some(c) = ctx.only_case {
                        if c != cs {
                            continue;
                        }
                    } else if idx % ctx.parts != ctx.part {
                        continue;
                    }
                    if ctx.too_many() {
                        return;
                    }
                    let mut text = String::new();
                    for &i in perm.iter().take(k) {
                        let dir = if kinds >> i & 1 == 1 { "out" } else { "in" };
                        text.push_str(&format!("sig S{i} 2 {dir} {}\n", if dir == "in" { "0" } else { "-" }));
                    }
                    text.push_str("src-begin\n");
                    let header: Vec<String> = (0..k).map(|i| format!("S{i}")).collect();
                    text.push_str(&header.join(" "));
                    text.push('\n');
                    let mut row = vec![];
                    let mut c = code;
                    for _ in 0..k {
                        row.push(atoms[(c % 4) as usize]);
                        c /= 4;
                    }
                    for _ in 0..2 {
                        text.push_str(&row.join(" "));
                        text.push('\n');
                    }
                    text.push_str("src-end\n");
                    let cc = match crate::corpus::parse_case(&format!("rows-enum-{idx}"), &text) {
                        Ok(c) => c,
                        Err(e) => {
                            ctx.report.notes.push(format!("rows-enum: {e}"));
                            continue;
                        }
                    };
                    total += 1;
                    judge_run_case(ctx, suite, cs, &cc.case, &cc.src, None);
                }
            }
        }
    }
    // the bidirectional shapes, likewise exhaustively: a bidirectional `B` alone, or together with an input literally called
    // `B_out` (then the column `B_out` is that input's column AND the expected column of `B` — F11, F23) in both orders of
    // the signal list; every header over {B, B_out} of one or two columns, an optional plain input, every row over {1,X,Z,C}
    let sig_lists: [&[&str]; 3] = [
        &["sig B 2 bidir 0"],
        &["sig B_out 2 in 0", "sig B 2 bidir 0"],
        &["sig B 2 bidir 0", "sig B_out 2 in 0"],
    ];
    let headers: [&[&str]; 6] = [&["B"], &["B_out"], &["B", "B_out"], &["B_out", "B"], &["A", "B_out"], &["B_out", "A", "B"]];
    let mut shared_total: u64 = 0;
    for sl in sig_lists.iter() {
        for hdr in headers.iter() {
            let k = hdr.len();
            for code in 0..(4u32.pow(k as u32)) {
                idx += 1;
                let cs = case_seed(0, suite, idx);
                if let Some(c) = ctx.only_case {
                    if c != cs {
                        continue;
                    }
                } else if idx % ctx.parts != ctx.part {
                    continue;
                }
                if ctx.too_many() {
                    return;
                }
                let mut text = String::new();
                for l in sl.iter() {
                    text.push_str(l);
                    text.push('\n');
                }
                if hdr.contains(&"A") {
                    text.push_str("sig A 1 in 0\n");
                }
                text.push_str("src-begin\n");
                text.push_str(&hdr.join(" "));
                text.push('\n');
                let mut row = vec![];
                let mut c = code;
                for _ in 0..k {
                    row.push(atoms[(c % 4) as usize]);
                    c /= 4;
                }
                for _ in 0..2 {
                    text.push_str(&row.join(" "));
                    text.push('\n');
                }
                text.push_str("src-end\n");
                let cc = match crate::corpus::parse_case(&format!("rows-enum-bidir-{idx}"), &text) {
                    Ok(c) => c,
                    Err(e) => {
                        ctx.report.notes.push(format!("rows-enum: {e}"));
                        continue;
                    }
                };
                shared_total += 1;
                ctx.report.bump("rows-enum-bidirectional");
                judge_run_case(ctx, suite, cs, &cc.case, &cc.src, None);
            }
        }
    }
    ctx.report.exhaustive.push(format!(
        "exhaustive: every header of 1..=3 columns x every input/output assignment x every signal-list order x every row over {{1,X,Z,C}} (twice in a row); this process: {total} cases, part {} of {}",
        ctx.part, ctx.parts
    ));
    ctx.report.exhaustive.push(format!(
        "exhaustive: a bidirectional signal alone or with an input called <name>_out (shared column) in both signal-list orders x six headers over its two columns x every row over {{1,X,Z,C}} (twice in a row); this process: {shared_total} cases"
    ));
}

/// the token alphabet of the exhaustive enumeration: one representative per syntactic role
const ENUM_ATOMS: &[&str] = &[
    "1", "0x1F", "a", "(", ")", ",", ";", "+", "-", "=", "<", "let", "loop", "end", "while", "repeat", "bits", "declare",
    "resetRandom", "C", "X", "\n", "program", "random", "repeat(2)", "bits(2,1)", "(a)", "let a=1;",
];

/// every token sequence of length 1..=max_len over `ENUM_ATOMS` behind the header `A B`, exhaustively
/// (partitioned over the parallel processes of a check): verdict, AST and spans against the model,
/// no panic, spans inside the text
pub fn suite_text_enum(ctx: &mut Ctx, suite: &str, max_len: u32) {
    if ctx.only_suite.as_deref().map(|s| s != suite).unwrap_or(false) {
        return;
    }
    let prop = ctx.prop.clone();
    let base = ENUM_ATOMS.len() as u64;
    let mut idx: u64 = 0;
    let mut total: u64 = 0;
    for len in 1..=max_len {
        let count = base.pow(len);
        for code in 0..count {
            idx += 1;
            let cs = case_seed(0, suite, idx);
            if let Some(c) = ctx.only_case {
                if c != cs {
                    continue;
                }
            } else if idx % ctx.parts != ctx.part {
                continue;
            }
            if ctx.too_many() {
                return;
            }
            let mut src = String::from("A B\n");
            let mut c = code;
            for k in 0..len {
                if k > 0 {
                    src.push(' ');
                }
                src.push_str(ENUM_ATOMS[(c % base) as usize]);
                c /= base;
            }
            // with and without a final newline (the parser's end-of-input paths differ)
            if code % 2 == 1 {
                src.push('\n');
            }
            ctx.tick(&src);
            let (il, _) = imp::parse_line(&src);
            let m = ask_parse(ctx, &src);
            ctx.report.evaluations += 1;
            total += 1;
            let key = fnv(&src);
            ctx.report.distinct.insert(key);
            ctx.report.nontrivial.insert(key);
            ctx.report.bump(if il.starts_with("parse ok") { "parse-ok" } else if il.starts_with("parse err") { "parse-err" } else { "parse-panic" });
            let il = vec![il];
            let (a, b) = (significant(&il), significant(&m));
            let (pa, pb) = if prop == "C09" { (a, b) } else { (project(&prop, &il), project(&prop, &m)) };
            if pa != pb {
                add_finding(ctx, "model", suite, cs, first_diff(&pa, &pb), src.clone(), &il, &m);
            }
            if il[0].starts_with("parse panic") {
                add_finding(ctx, "oracle", suite, cs, format!("parser panicked: {}", il[0]), src.clone(), &il, &m);
            }
            if let Some(p) = span_problem(&src, &il[0]) {
                add_finding(ctx, "oracle", suite, cs, p, src.clone(), &il, &m);
            }
        }
    }
    let note = format!(
        "exhaustive: every token sequence of length 1..={max_len} over {} tokens behind the header `A B` (this process: {total} of them, part {} of {})",
        ENUM_ATOMS.len(),
        ctx.part,
        ctx.parts
    );
    ctx.report.exhaustive.push(note);
}

/// one grammar-breaking edit; returns (text, invalid by construction?, label)
fn mutate(prog: &Prog, r: &mut Prng, style: &Style) -> (String, bool, &'static str) {
    let mut p = prog.clone();
    // make sure there is something to break
    if p.stmts.is_empty() {
        p.stmts.push(GStmt::Row(p.header.iter().map(|_| GEntry::Num(0)).collect()));
    }
    let plain = |p: &Prog, r: &mut Prng| print(p, r, style).text;
    match r.below(12) {
        0 => {
            // truncation inside a block: cut the text somewhere after a block header and before its end
            let p2 = with_block(&p, r);
            let text = plain(&p2, r);
            // the inserted block is the first statement: its header is the line after the test header
            let lo = text.find('\n').map(|i| i + 1).unwrap_or(0);
            // cut strictly inside the inserted (first) block: after its header line, before its `end`
            let hdr_end = text[lo..].find('\n').map(|i| lo + i + 1).unwrap_or(text.len());
            let hi = text[hdr_end..].find("end ").map(|i| hdr_end + i).unwrap_or(text.len());
            if hdr_end >= hi {
                return (text, false, "valid");
            }
            let mut cut = hdr_end + r.below(hi - hdr_end + 1);
            while !text.is_char_boundary(cut) {
                cut -= 1;
            }
            let mut t = text[..cut].to_string();
            if r.chance(1, 2) {
                t.push('\n');
            }
            (t, true, "truncated-inside-block")
        }
        1 => {
            let p2 = with_block(&p, r);
            let text = plain(&p2, r);
            // wrong terminator
            // (in the body only: header names may be spelled `end` and `loop`)
            let body_at = text.find('\n').map(|i| i + 1).unwrap_or(text.len());
            let (head, body) = text.split_at(body_at);
            let body = if body.contains("end loop") { body.replacen("end loop", "end while", 1) } else { body.replacen("end while", "end loop", 1) };
            (format!("{head}{body}"), true, "wrong-terminator")
        }
        2 => {
            let mut text = plain(&p, r);
            if !text.ends_with('\n') {
                text.push('\n');
            }
            text.push_str(*r.pick(&["end loop", "end while", "end", "end loop\n"]));
            (text, true, "end-at-top-level")
        }
        3 => {
            // a data row with one entry too many / too few
            let extra = r.chance(1, 2);
            let extra_entry = match r.below(6) {
                0 => GEntry::C,
                1 => GEntry::X,
                2 => GEntry::Z,
                3 => GEntry::Expr(GExpr::Num(1)),
                4 => GEntry::Bits(1, GExpr::Num(1)),
                _ => GEntry::Num(1),
            };
            let mut done = false;
            edit_rows(&mut p.stmts, &mut |row| {
                if done {
                    return;
                }
                done = true;
                if extra {
                    row.push(extra_entry.clone());
                } else if row.len() > 1 {
                    row.pop();
                } else {
                    row.push(GEntry::X);
                }
            });
            (plain(&p, r), done, "row-length")
        }
        4 => {
            let text = plain(&p, r);
            // drop one `;`
            match text.find(';') {
                Some(i) => (format!("{}{}", &text[..i], &text[i + 1..]), true, "missing-semicolon"),
                None => (text, false, "valid"),
            }
        }
        5 => {
            // unknown names, and the table's names in another letter case — at the arity of the function they resemble
            let (f, n) = *r.pick(&[("f", 1usize), ("rand", 1), ("Ite", 1), ("signext", 1), ("Ite", 3), ("ITE", 3), ("itE", 3), ("Random", 1), ("RANDOM", 1), ("randoM", 1), ("signext", 2), ("SignExt", 2), ("SIGNEXT", 2), ("random_", 1), ("ite2", 3)]);
            p.stmts.insert(0, GStmt::Let("a".into(), GExpr::Call(f.into(), (0..n).map(|i| GExpr::Num(2 + i as i64)).collect())));
            (plain(&p, r), true, "unknown-function")
        }
        6 => {
            // any number of arguments but the function's own: small ones, and the counts a growing buffer would land on
            let (f, own) = *r.pick(&[("ite", 3usize), ("random", 1), ("signExt", 2)]);
            let mut n = *r.pick(&[0usize, 1, 2, 3, 4, 5, 6, 7, 8, 9, 12, 16, 24, 32, 48, 64, 65]);
            if n == own {
                n += 1;
            }
            p.stmts.insert(0, GStmt::Let("a".into(), GExpr::Call(f.into(), (0..n).map(|i| GExpr::Num(i as i64)).collect())));
            (plain(&p, r), true, "wrong-arity")
        }
        7 => {
            let lit = *r.pick(&["9223372036854775808", "0x8000000000000000", "18446744073709551616", "01000000000000000000000", "0b1000000000000000000000000000000000000000000000000000000000000000"]);
            let text = plain(&p, r);
            let t = format!("{}let big = {};\n{}", &text[..text.find('\n').map(|i| i + 1).unwrap_or(0)], lit, &text[text.find('\n').map(|i| i + 1).unwrap_or(0)..]);
            (t, true, "literal-too-big")
        }
        8 => {
            let w = p.header.len();
            let k = 65 + r.below(200);
            let mut row: Vec<GEntry> = vec![GEntry::Bits(0, GExpr::Num(0))];
            row.extend((0..w).map(|_| GEntry::Num(0)));
            p.stmts.insert(0, GStmt::Row(row));
            let text = plain(&p, r).replacen("bits(0", &format!("bits({k}"), 1).replacen("bits (0", &format!("bits ({k}"), 1);
            (text, true, "bits-above-64")
        }
        9 => {
            if r.chance(1, 2) {
                let h = p.header[0].clone();
                p.header.push(h);
                edit_rows(&mut p.stmts, &mut |row| row.push(GEntry::Num(0)));
                (plain(&p, r), true, "duplicate-header-name")
            } else {
                p.stmts.push(GStmt::Declare("DUP".into(), GExpr::Num(1)));
                p.stmts.push(GStmt::Declare("DUP".into(), GExpr::Num(2)));
                (plain(&p, r), true, "duplicate-declare")
            }
        }
        10 => {
            // header not followed by a line break
            let text: String = p.header.join(" ");
            (text, true, "header-without-newline")
        }
        _ => {
            // missing `)` or `,`
            let text = plain(&with_block(&p, r), r);
            let c = *r.pick(&[')', ',']);
            match text.find(c) {
                Some(i) if text[..i].contains('\n') => (format!("{}{}", &text[..i], &text[i + 1..]), c == ')', if c == ')' { "missing-paren" } else { "missing-comma" }),
                _ => (text, false, "valid"),
            }
        }
    }
}

fn with_block(p: &Prog, r: &mut Prng) -> Prog {
    let mut p = p.clone();
    let row = GStmt::Row(p.header.iter().map(|_| GEntry::Num(1)).collect());
    let body = vec![row.clone(), GStmt::Let("q".into(), GExpr::Num(1)), row];
    let blk = if r.chance(1, 2) { GStmt::Loop("i".into(), GExpr::Num(2), body) } else { GStmt::While(GExpr::Num(0), body) };
    p.stmts.insert(0, blk);
    p
}

fn edit_rows(stmts: &mut [GStmt], f: &mut dyn FnMut(&mut Vec<GEntry>)) {
    for s in stmts {
        match s {
            GStmt::Row(r) | GStmt::Repeat(_, r) => f(r),
            GStmt::Loop(_, _, b) | GStmt::While(_, b) => edit_rows(b, f),
            _ => {}
        }
    }
}

/// C20 — the same token sequence in two layouts
pub fn suite_layout(ctx: &mut Ctx, suite: &str, n: u64) {
    if ctx.only_suite.as_deref().map(|s| s != suite).unwrap_or(false) {
        return;
    }
    let prof = Profile::default_run();
    for idx in 0..n {
        let cs = case_seed(ctx.seed, suite, idx);
        if ctx.only_case.map(|c| c != cs).unwrap_or(false) {
            continue;
        }
        if ctx.too_many() {
            break;
        }
        let mut cr = Prng::new(cs);
        let mut case = gen_case(&mut cr, &prof);
        if cr.chance(1, 6) {
            // also an invalid token sequence: the verdict must not depend on the layout either
            case.prog.stmts.push(GStmt::Row(vec![GEntry::Num(1); case.prog.header.len() + 1]));
        }
        let a = print(&case.prog, &mut Prng::new(1), &Style::plain());
        let st = Style::random(&mut cr);
        let b = print(&case.prog, &mut cr.fork(), &st);
        ctx.tick(&b.text);
        let ra = imp::run_dynamic(&case, &a.text);
        let rb = imp::run_dynamic(&case, &b.text);
        ctx.report.evaluations += 1;
        let key = fnv(&b.text);
        ctx.report.distinct.insert(key);
        if a.text != b.text {
            ctx.report.nontrivial.insert(key);
        }
        if st.crlf {
            ctx.report.bump("crlf");
        }
        if st.radix > 0 {
            ctx.report.bump("radix-variants");
        }
        if st.comments > 0 {
            ctx.report.bump("comments");
        }
        if st.blank_lines > 0 {
            ctx.report.bump("blank-lines");
        }
        if st.tight {
            ctx.report.bump("tight");
        }
        if ctx.report.samples.len() < 2 {
            ctx.report.samples.push(format!("--- plain ---\n{}\n--- variant ---\n{}", a.text, b.text));
        }
        // metamorphic oracle: identical verdicts and rows, except for the line
        let (pa, pb) = (project("C20", &ra.lines), project("C20", &rb.lines));
        let text = format!("{}\n--- plain layout of the same token sequence ---\n{}", describe_case(&case, &b.text), a.text);
        if pa != pb {
            add_finding(ctx, "oracle", suite, cs, format!("two layouts of one token sequence behave differently: {}", first_diff(&pa, &pb)), text.clone(), &ra.lines, &rb.lines);
        } else {
            // and the line shifts by exactly the number of lines inserted above the row
            let la: Vec<usize> = ra.lines.iter().filter(|l| l.starts_with("item ") && item_kind(l) == "row").filter_map(|l| field(l, "line")?.parse().ok()).collect();
            let lb: Vec<usize> = rb.lines.iter().filter(|l| l.starts_with("item ") && item_kind(l) == "row").filter_map(|l| field(l, "line")?.parse().ok()).collect();
            for (x, y) in la.iter().zip(lb.iter()) {
                let i = a.row_lines.iter().position(|l| l == x);
                let want = i.and_then(|i| b.row_lines.get(i));
                // (a line may hold several row statements only through loops; the position is by statement)
                if let Some(w) = want {
                    if a.row_lines.iter().filter(|l| *l == x).count() == 1 && w != y {
                        add_finding(ctx, "oracle", suite, cs, format!("row of line {x} in the plain layout sits on line {w} in the variant but reports {y}"), text.clone(), &ra.lines, &rb.lines);
                        break;
                    }
                }
            }
        }
        // model tie for the variant
        let req = imp::enc_run_request(&b.text, &case.sigs, case.own_wo, &rb.script, &rb.epochs, case.cap, false);
        let m = split_post(ctx.model.ask(&req)).0;
        let (pi, pm) = (project("C20", &rb.lines), project("C20", &m));
        if pi != pm {
            add_finding(ctx, "model", suite, cs, first_diff(&pi, &pm), text, &rb.lines, &m);
        }
    }
}

// ---------------------------------------------------------------------------------------------
// lexer

pub fn suite_lex(ctx: &mut Ctx, suite: &str, n: u64) {
    use digital_test_runner::verif_hooks;
    if ctx.only_suite.as_deref().map(|s| s != suite).unwrap_or(false) {
        return;
    }
    let mut texts: Vec<String> = vec![];
    // exhaustive part: every fixed spelling, with every one-character extension and truncation
    let spell = [
        ",", ";", "+", "-", "*", "/", "%", "!", "~", "^", "&", "|", "<<", ">>", "=", "!=", "<=", ">=", "<", ">", "(", ")", "end", "loop",
        "repeat", "bits", "let", "resetRandom", "while", "declare", "program", "init", "memory", "def", "call", "\n", "0", "0x1", "0b1", "07", "19",
        "a", "_",
    ];
    let ext = ['a', 'Z', '_', '0', '9', ' ', '\n', '=', '<', '>', '!', 'x', 'b', 'é', '٣', '#', '(', '\r', '\u{c}', '\t'];
    for s in spell {
        texts.push(s.to_string());
        for c in ext {
            texts.push(format!("{s}{c}"));
            texts.push(format!("{c}{s}"));
        }
        let cs: Vec<char> = s.chars().collect();
        for k in 1..cs.len() {
            texts.push(cs[..k].iter().collect());
        }
    }
    let exhaustive = texts.len();
    let mut r = Prng::new(ctx.seed ^ 0x1e8);
    for _ in 0..n {
        let k = r.below(10) + 1;
        let mut s = String::new();
        for _ in 0..k {
            s.push_str(*r.pick(RAW_ATOMS));
            if r.chance(1, 4) {
                s.push(' ');
            }
        }
        texts.push(s);
    }
    ctx.report.exhaustive.push(format!("{exhaustive} texts: every keyword / operator spelling with each of {} one-character extensions on either side and every proper prefix", ext.len()));
    for (idx, t) in texts.iter().enumerate() {
        if ctx.too_many() {
            break;
        }
        ctx.tick(t);
        let toks = std::panic::catch_unwind(|| verif_hooks::body_tokens(t));
        let il = match toks {
            Ok(v) => format!("toks {}", v.iter().map(|(k, s, e)| format!("{k}:{s}:{e}")).collect::<Vec<_>>().join(" ")),
            Err(_) => "toks panic".to_string(),
        };
        let m = ctx.model.ask(&format!("lex {}", hex(t)));
        ctx.report.evaluations += 1;
        ctx.report.distinct.insert(fnv(t));
        ctx.report.nontrivial.insert(fnv(t));
        if ctx.report.samples.len() < 3 && idx >= exhaustive {
            ctx.report.samples.push(format!("{t:?} -> {il}"));
        }
        if m.first() != Some(&il) {
            add_finding(ctx, "model", suite, idx as u64, format!("token dumps differ: implementation `{il}` / model `{}`", m.first().cloned().unwrap_or_default()), format!("{t:?}"), &[il.clone()], &m);
        }
        // header + body hand-over
        let t2 = format!("A B{}\n{t}", if r.chance(1, 2) { " " } else { "" });
        let ih = match std::panic::catch_unwind(|| verif_hooks::test_tokens(&t2)) {
            Ok(Ok((names, line, toks))) => format!(
                "hdr ok [{}] line={} toks {}",
                names.iter().map(|(n, s, e)| format!("{}:{s}:{e}", hex(n))).collect::<Vec<_>>().join(" "),
                line,
                toks.iter().map(|(k, s, e)| format!("{k}:{s}:{e}")).collect::<Vec<_>>().join(" ")
            ),
            Ok(Err(spans)) => format!("hdr err [{}]", spans.iter().map(|(s, e)| format!("({s} {e})")).collect::<Vec<_>>().join(" ")),
            Err(_) => "hdr panic".to_string(),
        };
        let m2 = ctx.model.ask(&format!("ttoks {}", hex(&t2)));
        ctx.report.evaluations += 1;
        if m2.first() != Some(&ih) {
            add_finding(ctx, "model", suite, idx as u64, format!("token dumps differ: implementation `{ih}` / model `{}`", m2.first().cloned().unwrap_or_default()), format!("{t2:?}"), &[ih.clone()], &m2);
        }
    }
}

/// literals at the edge of 64 bits in every radix and spelling: the verdict (and the parse) must not depend on the
/// radix (C20), values from 2^63 on are rejected in every radix (C12), and the model agrees on each text
pub fn suite_radix_edge(ctx: &mut Ctx, suite: &str) {
    if ctx.only_suite.as_deref().map(|s| s != suite).unwrap_or(false) {
        return;
    }
    let prop = ctx.prop.clone();
    let values: [u128; 9] = [0, 1, (1u128 << 62) + 3, (1u128 << 63) - 1, 1u128 << 63, (1u128 << 63) + 1, (1u128 << 64) - 1, 1u128 << 64, (1u128 << 64) + 5];
    let mut n = 0;
    for (vi, v) in values.iter().enumerate() {
        let spellings = vec![
            format!("{v}"),
            format!("0x{v:x}"),
            format!("0X{v:X}"),
            format!("0x00{v:x}"),
            format!("0b{v:b}"),
            format!("0B{v:b}"),
            format!("0{v:o}"),
            format!("000{v:o}"),
        ];
        for (ci, ctxt) in ["A\n{}\n", "A\n({})\n", "A\nlet a = {};\n(a)\n", "A\nloop(i, {})\n1\nend loop\n", "A\n(1 + {} * 1)\n"].iter().enumerate() {
            let mut first: Option<(String, String)> = None;
            for sp in &spellings {
                let src = ctxt.replace("\\n", "\n").replace("{}", sp);
                ctx.tick(&src);
                let (il, _) = imp::parse_line(&src);
                let m = ask_parse(ctx, &src);
                ctx.report.evaluations += 1;
                ctx.report.distinct.insert(fnv(&src));
                ctx.report.nontrivial.insert(fnv(&src));
                n += 1;
                let cs = (vi * 100 + ci) as u64;
                let il_v = vec![il.clone()];
                if project(&prop, &il_v) != project(&prop, &m) && project("C12", &il_v) != project("C12", &m) {
                    add_finding(ctx, "model", suite, cs, first_diff(&project("C12", &il_v), &project("C12", &m)), format!("{src:?}"), &il_v, &m);
                }
                let verdict = il.split(' ').take(2).collect::<Vec<_>>().join(" ");
                // what the property texts settle: a literal that fits is a literal (C08), one that does not fit in 64 bits
                // is rejected (C12); from 2^63 to 2^64-1 only the independence of the radix is demanded (C20) — crate and
                // model reject those, which the comparison with the model above covers
                let want = if *v < (1u128 << 63) { Some("parse ok") } else if *v >= (1u128 << 64) { Some("parse err") } else { None };
                if let Some(want) = want {
                    if verdict != want {
                        add_finding(ctx, "oracle", suite, cs, format!("the literal {sp} (value {v}) gives `{verdict}`, should be `{want}`"), format!("{src:?}"), &il_v, &m);
                    }
                }
                match &first {
                    None => first = Some((sp.clone(), il.clone())),
                    Some((sp0, il0)) => {
                        // the same number in another radix: the same parse (the dump holds values, not spellings)
                        let v0 = il0.split(' ').take(2).collect::<Vec<_>>().join(" ");
                        if v0 != verdict {
                            add_finding(ctx, "oracle", suite, cs, format!("{sp0} and {sp} are the same number but one is accepted and the other rejected"), format!("{src:?}"), &il_v, &[il0.clone()]);
                        } else if verdict == "parse ok" && strip_spans(il0) != strip_spans(&il) {
                            add_finding(ctx, "oracle", suite, cs, format!("{sp0} and {sp} are the same number but parse differently"), format!("{src:?}"), &il_v, &[il0.clone()]);
                        }
                    }
                }
            }
        }
    }
    ctx.report.exhaustive.push(format!("{n} texts: 9 values around 2^63 and 2^64 in 8 spellings (decimal, hex in both cases and with leading zeros, binary, octal) in 5 contexts"));
}

fn strip_spans(l: &str) -> String {
    // byte offsets differ with the length of the spelling; drop everything that looks like `(s e)` / `s..e`
    let mut out = String::new();
    let mut depth = 0;
    for c in l.chars() {
        match c {
            '(' => depth += 1,
            ')' => {
                if depth > 0 {
                    depth -= 1;
                }
            }
            _ if depth == 0 && !c.is_ascii_digit() => out.push(c),
            _ => {}
        }
    }
    out
}

/// a row far down the file: more than 65 535 blank and comment-only lines above it (C19: the 1-based line of the row,
/// however many such lines there are; C20: `line` shifts by the number of lines inserted).  Implementation only.
pub fn suite_big_lines(ctx: &mut Ctx, suite: &str) {
    use digital_test_runner::{ParsedTestCase, Signal};
    if ctx.only_suite.as_deref().map(|s| s != suite).unwrap_or(false) {
        return;
    }
    let mut r = Prng::new(ctx.seed ^ 0xb16);
    let blanks = 65_530 + r.below(5000);
    let mut src = String::from("A B\n");
    let mut line = 2usize;
    let mut want = vec![];
    for k in 0..blanks {
        src.push_str(if k % 3 == 0 { "# c\n" } else { "\n" });
        line += 1;
    }
    want.push(line);
    src.push_str("1 1\n");
    line += 1;
    for _ in 0..7 {
        src.push_str("\n");
        line += 1;
    }
    want.push(line);
    want.push(line);
    src.push_str("repeat(2) 0 0\n");
    let src = src.replace("\\n", "\n");
    ctx.tick(&format!("{} blank/comment lines, then rows", blanks));
    ctx.report.evaluations += 1;
    ctx.report.nontrivial.insert(fnv(&src));
    ctx.report.distinct.insert(fnv(&src));
    let got = std::panic::catch_unwind(|| -> Result<Vec<usize>, String> {
        let p: ParsedTestCase = src.parse().map_err(|e| format!("parse error {e:?}"))?;
        let tc = p.with_signals(vec![Signal::input("A", 1, 0), Signal::output("B", 1)]).map_err(|e| format!("bind error {e:?}"))?;
        let it = tc.try_iter_static().map_err(|e| format!("static error {e:?}"))?;
        let mut v = vec![];
        for row in it {
            v.push(row.map_err(|e| format!("row error {e:?}"))?.line);
        }
        Ok(v)
    });
    let got = match got {
        Ok(Ok(v)) => format!("{v:?}"),
        Ok(Err(e)) => e,
        Err(_) => format!("panic {}", imp::take_panic()),
    };
    if got != format!("{want:?}") {
        add_finding(ctx, "oracle", suite, blanks as u64, format!("rows behind {blanks} blank and comment-only lines report the lines {got}, they are on {want:?}"), format!("header, {blanks} blank/comment lines (every third `# c`), `1 1`, 7 blank lines, `repeat(2) 0 0`"), &[got.clone()], &[]);
    }
    ctx.report.exhaustive.push("1 text with more than 65 535 blank and comment-only lines above its rows".to_string());
}

// ---------------------------------------------------------------------------------------------
// operators, masks, tables

fn eval_via_api(expr_src: &str, lets: &[(String, i64)]) -> Result<Result<i64, String>, String> {
    // the un-truncated value of `(expr)` in a virtual-signal column
    use digital_test_runner::{ExpectedValue, ParsedTestCase, Signal};
    let mut src = String::from("A V\ndeclare V = 0;\n");
    for (n, v) in lets {
        if *v >= 0 {
            src.push_str(&format!("let {n} = {v};\n"));
        } else if *v == i64::MIN {
            src.push_str(&format!("let {n} = -9223372036854775807 - 1;\n"));
        } else {
            src.push_str(&format!("let {n} = -{};\n", -(*v as i128)));
        }
    }
    src.push_str(&format!("0 ({expr_src})\n"));
    let r = std::panic::catch_unwind(|| -> Result<Result<i64, String>, String> {
        let p: ParsedTestCase = src.parse().map_err(|e| format!("parse error {e:?}"))?;
        let tc = p.with_signals(vec![Signal::input("A", 1, 0)]).map_err(|e| format!("bind error {e:?}"))?;
        let mut it = tc.try_iter_static().map_err(|e| format!("static error {e:?}"))?;
        match it.next() {
            Some(Ok(row)) => match row.expected.iter().find(|e| e.signal.name == "V").map(|e| e.value) {
                Some(ExpectedValue::Value(n)) => Ok(Ok(n)),
                other => Err(format!("no numeric expected value: {other:?}")),
            },
            Some(Err(e)) => Ok(Err(format!("{e}"))),
            None => Err("no row".to_string()),
        }
    });
    match r {
        Ok(x) => x,
        Err(_) => Err(format!("panic {}", imp::take_panic())),
    }
}

pub fn suite_ops(ctx: &mut Ctx, suite: &str, n: u64) {
    if ctx.only_suite.as_deref().map(|s| s != suite).unwrap_or(false) {
        return;
    }
    let mut r = Prng::new(ctx.seed ^ 0x0b5);
    let mut vals: Vec<i64> = BOUNDARY.to_vec();
    vals.extend(BOUNDARY.iter().map(|v| -v));
    vals.extend([i64::MIN, i64::MIN + 1, -1, -2, -63, -64, -65]);
    vals.sort();
    vals.dedup();
    let mut pairs: Vec<(i64, i64)> = vec![];
    let edge = [0i64, 1, -1, 2, 63, 64, 65, 127, -64, i64::MAX, i64::MIN, i64::MIN + 1, 1 << 32, 3, -3, 7];
    for a in &edge {
        for b in &edge {
            pairs.push((*a, *b));
        }
    }
    ctx.report.exhaustive.push(format!("all {} pairs of the edge set {:?} for each of the 16 binary operators", pairs.len(), edge));
    for _ in 0..n {
        pairs.push((if r.chance(1, 2) { *r.pick(&vals) } else { any_i64(&mut r) }, if r.chance(1, 2) { *r.pick(&vals) } else { any_i64(&mut r) }));
    }
    for (idx, (a, b)) in pairs.iter().enumerate() {
        for (name, sym, _) in BINOPS {
            if ctx.too_many() {
                return;
            }
            let desc = format!("a {sym} b with a={a} b={b}");
            ctx.tick(&desc);
            let got = eval_via_api(&format!("a {sym} b"), &[("a".into(), *a), ("b".into(), *b)]);
            let want = ref_binop(name, *a, *b);
            let m = ctx.model.ask(&format!("binop {name} {a} {b}"));
            ctx.report.evaluations += 1;
            ctx.report.distinct.insert(fnv(&desc));
            ctx.report.nontrivial.insert(fnv(&desc));
            ctx.report.bump(name);
            let il = match &got {
                Ok(Ok(v)) => format!("binop {v}"),
                Ok(Err(_)) => "binop err".to_string(),
                Err(e) => format!("binop FAILED {e}"),
            };
            if ctx.report.samples.len() < 3 && idx > 40 {
                ctx.report.samples.push(format!("{desc} = {il}"));
            }
            if m.first() != Some(&il) {
                add_finding(ctx, "model", suite, idx as u64, format!("{desc}: implementation `{il}` / model `{}`", m.first().cloned().unwrap_or_default()), desc.clone(), &[il.clone()], &m);
            }
            let ok = match (&got, &want) {
                (Ok(Ok(v)), Ok(w)) => v == w,
                (Ok(Err(_)), Err(RefErr::DivZero)) => true,
                _ => false,
            };
            if !ok {
                add_finding(ctx, "oracle", suite, idx as u64, format!("{desc}: implementation gives {got:?}, the arithmetic of the property gives {want:?}"), desc, &[il], &m);
            }
        }
    }
    // unary operators
    for v in vals.iter() {
        for (name, sym) in UNOPS {
            let desc = format!("{sym}a with a={v}");
            let got = eval_via_api(&format!("{sym}a"), &[("a".into(), *v)]);
            let want = ref_unop(name, *v);
            let m = ctx.model.ask(&format!("unop {name} {v}"));
            ctx.report.evaluations += 1;
            ctx.report.bump(name);
            let il = match &got {
                Ok(Ok(x)) => format!("unop {x}"),
                other => format!("unop FAILED {other:?}"),
            };
            if m.first() != Some(&il) {
                add_finding(ctx, "model", suite, 0, format!("{desc}: implementation `{il}` / model `{}`", m.first().cloned().unwrap_or_default()), desc.clone(), &[il.clone()], &m);
            }
            if got != Ok(Ok(want)) {
                add_finding(ctx, "oracle", suite, 0, format!("{desc}: implementation gives {got:?}, the property gives {want}"), desc, &[il], &m);
            }
        }
    }
}

/// random expression trees printed with minimal and redundant parentheses, evaluated under random valuations
pub fn suite_expr(ctx: &mut Ctx, suite: &str, n: u64) {
    if ctx.only_suite.as_deref().map(|s| s != suite).unwrap_or(false) {
        return;
    }
    let mut prof = Profile::default_run();
    prof.p_random = 0;
    prof.p_read = 0;
    prof.p_div = 12;
    prof.p_wide = 40;
    for idx in 0..n {
        let cs = case_seed(ctx.seed, suite, idx);
        if ctx.only_case.map(|c| c != cs).unwrap_or(false) {
            continue;
        }
        if ctx.too_many() {
            break;
        }
        let mut r = Prng::new(cs);
        let lets: Vec<(String, i64)> = ["a", "b", "k"].iter().map(|n| (n.to_string(), any_i64(&mut r))).collect();
        let e = {
            let mut g = crate::gen::Gen::for_exprs(&mut r, &prof, &["a", "b", "k"]);
            let d = 2 + g.r.below(3);
            g.expr(d, true)
        };
        let mut st = Style::plain();
        st.parens = *r.pick(&[0, 0, 30, 70]);
        st.radix = *r.pick(&[0, 50]);
        st.tight = r.chance(1, 3);
        let text = crate::gen::print_expr(&e, &mut r, &st);
        ctx.tick(&text);
        let got = eval_via_api(&text, &lets);
        let env = lets.clone();
        let want = ref_eval(&e, &|n| env.iter().find(|(k, _)| k == n).map(|(_, v)| Ok(*v)));
        ctx.report.evaluations += 1;
        ctx.report.distinct.insert(fnv(&format!("{text}{lets:?}")));
        ctx.report.nontrivial.insert(fnv(&format!("{text}{lets:?}")));
        if ctx.report.samples.len() < 3 {
            ctx.report.samples.push(format!("{text} with {lets:?} = {got:?}"));
        }
        let ok = match (&got, &want) {
            (Ok(Ok(v)), Ok(w)) => v == w,
            (Ok(Err(_)), Err(RefErr::DivZero)) => true,
            // `signExt` is in the function table but not implemented: an error, reached in evaluation order
            (Ok(Err(_)), Err(RefErr::Unsupported)) => true,
            _ => false,
        };
        ctx.report.bump(match want { Ok(_) => "value", Err(RefErr::Unsupported) => "not-implemented", _ => "division-by-zero" });
        if !ok {
            let mut d = String::new();
            dump_expr(&e, &mut d);
            add_finding(ctx, "oracle", suite, cs, format!("`{text}` under {lets:?}: implementation gives {got:?}, the tree {d} evaluates to {want:?}"), text, &[], &[]);
        }
    }
}

/// value of the flat chain `v0 o1 v1 … on vn` under the property's table: split at the LAST operator of the loosest
/// level present (left associativity), recursively — written against the statement, not against the parser
fn ladder_value(vals: &[i64], ops: &[(&'static str, u8)]) -> Result<i64, RefErr> {
    if ops.is_empty() {
        return Ok(vals[0]);
    }
    let loosest = ops.iter().map(|o| o.1).max().unwrap();
    let at = ops.iter().rposition(|o| o.1 == loosest).unwrap();
    let l = ladder_value(&vals[..=at], &ops[..at])?;
    let r = ladder_value(&vals[at + 1..], &ops[at + 1..])?;
    ref_binop(ops[at].0, l, r)
}

/// Long flat operator chains without any parentheses: all eight levels in one expression, from the loosest to the
/// tightest and back, zigzags, runs of one level — the shapes in which a bounded or iterative tree builder goes wrong.
pub fn suite_ladders(ctx: &mut Ctx, suite: &str, n: u64) {
    if ctx.only_suite.as_deref().map(|s| s != suite).unwrap_or(false) {
        return;
    }
    let by_level = |lv: u8| -> Vec<(&'static str, &'static str, u8)> { BINOPS.iter().filter(|o| o.2 == lv).cloned().collect() };
    for idx in 0..n {
        let cs = case_seed(ctx.seed, suite, idx);
        if ctx.only_case.map(|c| c != cs).unwrap_or(false) {
            continue;
        }
        if ctx.too_many() {
            break;
        }
        let mut r = Prng::new(cs);
        // the sequence of levels
        let levels: Vec<u8> = match idx % 6 {
            0 => (1..=8).rev().collect(),                                   // loosest → tightest: the deepest right spine
            1 => (1..=8).collect(),                                         // tightest → loosest: the deepest left spine
            2 => (1..=8).rev().chain(1..=8).collect(),                      // down and up again
            3 => (1..=8).chain((1..=8).rev()).collect(),                    // up and down again
            4 => {
                let lv = 1 + r.below(8) as u8;                              // a long run of one level
                vec![lv; 2 + r.below(14)]
            }
            _ => (0..(2 + r.below(18))).map(|_| 1 + r.below(8) as u8).collect(),
        };
        // now and then drop a few steps of a ladder, so that every length and every skipped level occurs
        let levels: Vec<u8> = if idx % 6 < 4 && r.chance(1, 2) { levels.into_iter().filter(|_| !r.chance(1, 5)).collect() } else { levels };
        if levels.is_empty() {
            continue;
        }
        let ops: Vec<(&'static str, &'static str, u8)> = levels.iter().map(|lv| *r.pick(&by_level(*lv))).collect();
        let vals: Vec<i64> = (0..=ops.len()).map(|_| *r.pick(&[0i64, 1, 1, 2, 3, 5, 7, 9, 255, 1 << 40])).collect();
        let mut text = String::new();
        for (i, v) in vals.iter().enumerate() {
            if i > 0 {
                text.push_str(&format!(" {} ", ops[i - 1].1));
            }
            text.push_str(&v.to_string());
        }
        ctx.tick(&text);
        let got = eval_via_api(&text, &[]);
        let flat: Vec<(&'static str, u8)> = ops.iter().map(|o| (o.0, o.2)).collect();
        let want = ladder_value(&vals, &flat);
        ctx.report.evaluations += 1;
        ctx.report.distinct.insert(fnv(&text));
        ctx.report.nontrivial.insert(fnv(&text));
        ctx.report.bump(if ops.len() >= 8 { "ladder>=8" } else { "ladder<8" });
        let ok = match (&got, &want) {
            (Ok(Ok(v)), Ok(w)) => v == w,
            (Ok(Err(_)), Err(RefErr::DivZero)) => true,
            _ => false,
        };
        if !ok {
            add_finding(ctx, "oracle", suite, cs, format!("`{text}`: implementation gives {got:?}, the precedence table of the property gives {want:?}"), text.clone(), &[], &[]);
        }
        // and the tree itself, against the model's parser
        let src = format!("A\n({text})\n");
        let (il, _) = imp::parse_line(&src);
        let m = ctx.model.ask(&format!("parse {}", hex(&src)));
        let ml = m.first().cloned().unwrap_or_default();
        if strip_row_lines(&il) != strip_row_lines(&ml) {
            add_finding(ctx, "model", suite, cs, format!("`{text}`: the parsed tree differs: {}", first_diff(&[il.clone()], &[ml.clone()])), text, &[il], &m);
        }
    }
}

pub fn suite_mask(ctx: &mut Ctx, suite: &str) {
    use digital_test_runner::{ExpectedValue, InputValue, ParsedTestCase, Signal};
    if ctx.only_suite.as_deref().map(|s| s != suite).unwrap_or(false) {
        return;
    }
    let mut vals: Vec<i64> = vec![0, 1, 2, 3, -1, -2, i64::MAX, i64::MIN, i64::MIN + 1, i64::MAX - 1, 0x5555_5555_5555_5555, -0x5555_5555_5555_5556];
    for k in [1, 7, 8, 31, 32, 33, 62, 63] {
        vals.push(1i64.wrapping_shl(k));
        vals.push(1i64.wrapping_shl(k).wrapping_sub(1));
        vals.push(1i64.wrapping_shl(k).wrapping_neg());
    }
    ctx.report.exhaustive.push(format!("every width 1..=64 × {} boundary values, on the input path and on the expected path, through the public API", vals.len()));
    for bits in 1..=64usize {
        // one program per width: a row per value, `(expr)` entries so that negative values are possible
        let mut src = String::from("A Q\n");
        for v in &vals {
            let e = if *v >= 0 {
                format!("{v}")
            } else if *v == i64::MIN {
                "-9223372036854775807 - 1".to_string()
            } else {
                format!("-{}", -(*v as i128))
            };
            src.push_str(&format!("({e}) ({e})\n"));
        }
        src.push_str("Z Z\n0 X\n");
        ctx.tick(&format!("mask width {bits}"));
        let res = std::panic::catch_unwind(|| -> Result<Vec<(InputValue, ExpectedValue)>, String> {
            let p: ParsedTestCase = src.parse().map_err(|e| format!("{e:?}"))?;
            let tc = p.with_signals(vec![Signal::input("A", bits, 0), Signal::output("Q", bits)]).map_err(|e| format!("{e:?}"))?;
            let it = tc.try_iter_static().map_err(|e| format!("{e:?}"))?;
            let mut out = vec![];
            for row in it {
                let row = row.map_err(|e| format!("{e}"))?;
                out.push((row.inputs[0].value, row.expected[0].value));
            }
            Ok(out)
        });
        let rows = match res {
            Ok(Ok(r)) => r,
            other => {
                add_finding(ctx, "oracle", suite, bits as u64, format!("width {bits}: the run failed: {other:?} {}", imp::take_panic()), src.clone(), &[], &[]);
                continue;
            }
        };
        // model: the same program through the run request (static)
        let sigs = vec![
            SigSpec { name: "A".into(), bits, dir: Dir::In, default: Some(0) },
            SigSpec { name: "Q".into(), bits, dir: Dir::Out, default: None },
        ];
        let req = imp::enc_run_request(&src, &sigs, false, &[], &[], 1000, true);
        let m = split_post(ctx.model.ask(&req)).0;
        let mrows: Vec<&String> = m.iter().filter(|l| l.starts_with("sitem ") && item_kind(l) == "row").collect();
        for (k, v) in vals.iter().enumerate() {
            ctx.report.evaluations += 2;
            ctx.report.distinct.insert(fnv(&format!("{bits}/{v}")));
            ctx.report.nontrivial.insert(fnv(&format!("{bits}/{v}")));
            let want = mask_ref(bits, *v);
            let Some((i, e)) = rows.get(k) else {
                add_finding(ctx, "oracle", suite, bits as u64, format!("width {bits}: row {k} missing"), src.clone(), &[], &m);
                break;
            };
            if *i != InputValue::Value(want) {
                add_finding(ctx, "oracle", suite, bits as u64, format!("input path, width {bits}: value {v} is handed to the driver as {i:?}, not {want}"), src.clone(), &[], &m);
            }
            if *e != ExpectedValue::Value(want) {
                add_finding(ctx, "oracle", suite, bits as u64, format!("expected path, width {bits}: value {v} is expected as {e:?}, not {want}"), src.clone(), &[], &m);
            }
            let il = format!("in=[h41={}/", imp::show_in(i));
            let el = format!("exp=[h51:{}]", imp::show_exp(e));
            match mrows.get(k) {
                Some(ml) if ml.contains(&il) && ml.contains(&el) => {}
                other => add_finding(ctx, "model", suite, bits as u64, format!("width {bits} value {v}: implementation {i:?}/{e:?}, model row {other:?}"), src.clone(), &[], &m),
            }
        }
        if rows.get(vals.len()).map(|r| (r.0, r.1)) != Some((InputValue::Z, ExpectedValue::Z)) || rows.get(vals.len() + 1).map(|r| r.1) != Some(ExpectedValue::X) {
            add_finding(ctx, "oracle", suite, bits as u64, format!("width {bits}: Z / X do not pass through unchanged"), src.clone(), &[], &m);
        }
        if ctx.report.samples.len() < 2 {
            ctx.report.samples.push(format!("width {bits}: {:?}", rows.iter().take(4).collect::<Vec<_>>()));
        }
    }
    // virtual signals are 64 bits wide
    let got = eval_via_api("a", &[("a".into(), -1)]);
    ctx.report.evaluations += 1;
    if got != Ok(Ok(-1)) {
        add_finding(ctx, "oracle", suite, 0, format!("a virtual signal's expected value -1 arrives as {got:?}"), "declare V".into(), &[], &[]);
    }
}

pub fn suite_tables(ctx: &mut Ctx, suite: &str) {
    use digital_test_runner::verif_hooks;
    if ctx.only_suite.as_deref().map(|s| s != suite).unwrap_or(false) {
        return;
    }
    ctx.tick("tables");
    let m = ctx.model.ask("tables");
    // only the ORDER of the precedence numbers is observable (rescaling them consistently is a harmless refactoring):
    // compared as dense ranks 1..k, tightest first
    let raw = verif_hooks::binop_table();
    let mut levels: Vec<_> = raw.iter().map(|(_, p)| *p).collect();
    levels.sort();
    levels.dedup();
    let table: Vec<(String, u8)> = raw.iter().map(|(sym, p)| (sym.clone(), (levels.iter().position(|l| l == p).unwrap() + 1) as u8)).collect();
    let il = format!(
        "prec {}",
        table
            .iter()
            .map(|(sym, p)| format!("{}:{p}", BINOPS.iter().find(|o| o.1 == sym).map(|o| o.0).unwrap_or("?")))
            .collect::<Vec<_>>()
            .join(" ")
    );
    let funcs = verif_hooks::func_table();
    let fl = format!("funcs {}", funcs.iter().map(|(n, a)| format!("{n}:{a}")).collect::<Vec<_>>().join(" "));
    ctx.report.evaluations += 2;
    ctx.report.exhaustive.push("the precedence of all 16 binary operators and the arity of all 3 functions, through the hook".into());
    ctx.report.distinct.insert(1);
    ctx.report.distinct.insert(2);
    ctx.report.nontrivial.insert(1);
    ctx.report.nontrivial.insert(2);
    if m.first() != Some(&il) || m.get(1) != Some(&fl) {
        add_finding(ctx, "model", suite, 0, format!("tables differ: implementation `{il}` `{fl}` / model {m:?}"), "tables".into(), &[il.clone(), fl], &m);
    }
    // the nine-level order of the property statement
    for (sym, p) in &table {
        let want = BINOPS.iter().find(|o| o.1 == sym).map(|o| o.2);
        if want != Some(*p) {
            add_finding(ctx, "oracle", suite, 0, format!("operator {sym} has precedence level {p}, the property says {want:?}"), "tables".into(), &[il.clone()], &m);
        }
    }
}

// ---------------------------------------------------------------------------------------------
// C15: determinism, re-runnability, static = dynamic

/// what a static row and a dynamic row have in common: line, inputs (with changed flags), expected values
fn common_part(l: &str) -> String {
    let kind = item_kind(l);
    let k = words(l).get(1).copied().unwrap_or("").to_string();
    if kind != "row" {
        return format!("{k} {kind}");
    }
    let line = field(l, "line").unwrap_or("");
    let ins = field(l, "in").unwrap_or("");
    let exp: Vec<String> = if l.starts_with("sitem") {
        list_items(field(l, "exp").unwrap_or("[]")).iter().map(|s| s.to_string()).collect()
    } else {
        list_items(field(l, "out").unwrap_or("[]"))
            .iter()
            .map(|e| {
                let (n, _, x, _) = out_entry(e);
                format!("{n}:{x}")
            })
            .collect()
    };
    format!("{k} row line={line} in={ins} exp=[{}]", exp.join(","))
}

pub fn suite_c15(ctx: &mut Ctx, suite: &str, n: u64) {
    if ctx.only_suite.as_deref().map(|s| s != suite).unwrap_or(false) {
        return;
    }
    let mut prof = profile_for("C15");
    prof.p_fault = 0;
    for idx in 0..n {
        let cs = case_seed(ctx.seed, suite, idx);
        if ctx.only_case.map(|c| c != cs).unwrap_or(false) {
            continue;
        }
        if ctx.too_many() {
            break;
        }
        let mut cr = Prng::new(cs);
        let mut case = gen_case(&mut cr, &prof);
        case.fault = None;
        let printed = print(&case.prog, &mut Prng::new(case.style_seed), &case.style);
        judge_c15_case(ctx, suite, cs, &case, &printed.text, &mut cr);
    }
}

pub fn judge_c15_case(ctx: &mut Ctx, suite: &str, cs: u64, case: &Case, src: &str, cr: &mut Prng) {
    let text = describe_case(case, src);
    ctx.tick(&text);
    ctx.report.evaluations += 1;
    let key = fnv(&format!("{src}|{:?}", case.sigs));
    ctx.report.distinct.insert(key);
    // (a) repeated parses
    if let Some(p) = imp::repeated_parse_problem(case, src, 4) {
        add_finding(ctx, "oracle", suite, cs, p, text.clone(), &[], &[]);
    }
    // (b) repeated iteration
    let r1 = imp::run_dynamic(case, src);
    let r2 = imp::run_dynamic(case, src);
    // within one build even the texts of the errors must be the same from run to run (the `#` lines carry them);
    // panic locations are excluded
    let with_texts = |l: &[String]| -> Vec<String> { l.iter().filter(|x| !x.contains("panic")).cloned().collect() };
    if significant(&r1.lines) == significant(&r2.lines) && with_texts(&r1.lines) != with_texts(&r2.lines) {
        add_finding(ctx, "oracle", suite, cs, format!("iterating the same test twice with identical driver responses gives different error texts: {}", first_diff(&with_texts(&r1.lines), &with_texts(&r2.lines))), text.clone(), &r1.lines, &r2.lines);
    }
    if significant(&r1.lines) != significant(&r2.lines) {
        add_finding(ctx, "oracle", suite, cs, format!("iterating the same test twice with identical driver responses differs: {}", first_diff(&significant(&r1.lines), &significant(&r2.lines))), text.clone(), &r1.lines, &r2.lines);
    }
    let bound = r1.lines.iter().any(|l| l.starts_with("bind ok"));
    if !bound {
        ctx.report.bump("not-bound");
        return;
    }
    ctx.report.nontrivial.insert(key);
    // (c) interleaved iterators over one TestCase
    let schedule: Vec<bool> = (0..(cr.below(7) + 2)).map(|_| cr.chance(1, 2)).collect();
    if let Some((a, b)) = imp::run_interleaved(case, src, &schedule) {
        let single: Vec<String> = significant(&r1.lines)
            .into_iter()
            .filter(|l| l.starts_with("call ") || l.starts_with("item ") || l.starts_with("ctor "))
            .map(|l| if l.starts_with("item ") && item_kind(&l) == "row" { l[..l.find(" vars=").unwrap_or(l.len())].to_string() } else { l.replace(" NOT-STICKY", "") })
            .map(|l| if l.starts_with("ctor err") { "ctor not-ok".to_string() } else { l })
            .collect();
        for (name, s) in [("first", a), ("second", b)] {
            let s = significant(&s);
            if s != single && single.iter().any(|l| l == "ctor ok") {
                add_finding(ctx, "oracle", suite, cs, format!("the {name} of two interleaved iterators (schedule {schedule:?}) differs from a single run: {}", first_diff(&s, &single)), text.clone(), &s, &single);
            }
        }
        ctx.report.bump("interleaved");
    }
    // (d) static iteration
    let Some((sl, sepochs, spanic)) = imp::run_static_case(case, src) else { return };
    let req = imp::enc_run_request(src, &case.sigs, false, &[], &sepochs, case.cap, true);
    // the static run too is continued behind error items (behind a `posterr` marker) and compared with the model in full
    let m = ctx.model.ask(&req);
    let ms: Vec<String> = significant(&m).into_iter().filter(|l| l.starts_with("static") || l.starts_with("sitem") || l == "posterr").collect();
    let is_static = sl.first().map(|l| l == "static ok").unwrap_or(false);
    ctx.report.bump(if is_static { "static" } else { "not-static" });
    if significant(&sl) != ms {
        add_finding(ctx, "model", suite, cs, format!("static iteration: {}", first_diff(&significant(&sl), &ms)), text.clone(), &sl, &m);
    }
    if spanic {
        add_finding(ctx, "oracle", suite, cs, format!("static iteration panicked: {sl:?}"), text.clone(), &sl, &m);
    }
    // static iff the program reads no outputs (the bind line lists the recorded reads)
    let reads_empty = r1.lines.iter().find(|l| l.starts_with("bind ok")).map(|l| l.contains(" reads=[] ")).unwrap_or(true);
    if is_static != reads_empty {
        add_finding(ctx, "oracle", suite, cs, format!("try_iter_static succeeded = {is_static} but 'no recorded reads' = {reads_empty}"), text.clone(), &sl, &r1.lines);
    }
    if is_static && case.fault.is_none() {
        // the static stream equals the dynamic one (inputs, expected values, lines), whatever the driver returns
        // static versus dynamic: up to the first error item (the dynamic trace `r1.lines` ends there)
        let s: Vec<String> = significant(&sl).iter().take_while(|l| *l != "posterr").filter(|l| l.starts_with("sitem")).map(|l| common_part(l)).collect();
        let d: Vec<String> = significant(&r1.lines).iter().filter(|l| l.starts_with("item")).map(|l| common_part(&l.replace(" NOT-STICKY", ""))).collect();
        if s != d {
            // known finding KF1? the static run stops on an identifier that is unassigned although the
            // parser took it for a variable, while the dynamic run reads the device output of that name
            // (the attribution looks at the FIRST error item only: the part of the model's trace in front of `posterr`)
            let m_pre: Vec<String> = m.iter().take_while(|l| *l != "posterr").cloned().collect();
            let model_says_unassigned = m_pre.iter().any(|l| l.starts_with("# expr") && l.contains("unassigned"));
            let name = m_pre
                .iter()
                .find(|l| l.starts_with("# expr") && l.contains("unassigned"))
                .and_then(|l| l.split('"').nth(1).map(|s| s.to_string()));
            let is_output = name.as_ref().map(|n| case.sigs.iter().any(|s| &s.name == n && s.is_output())).unwrap_or(false);
            let first_bad = s.iter().zip(d.iter()).position(|(a, b)| a != b).unwrap_or(s.len().min(d.len()));
            let static_err_there = s.get(first_bad).map(|l| l.ends_with(" err")).unwrap_or(false);
            if model_says_unassigned && is_output && static_err_there && significant(&sl) == ms {
                add_finding(
                    ctx,
                    "known",
                    suite,
                    cs,
                    {
                        let _ = name;
                        "KF1 static != dynamic: a name assigned only inside a while body that ran zero times is still taken for a variable by the parser; the dynamic run reads the device output of that name, the static run cannot (known_findings.json)".to_string()
                    },
                    text.clone(),
                    &sl,
                    &r1.lines,
                );
            } else {
                add_finding(ctx, "oracle", suite, cs, format!("static and dynamic iteration differ: {}", first_diff(&s, &d)), text.clone(), &sl, &r1.lines);
            }
        }
    }
}

// ---------------------------------------------------------------------------------------------

/// F23 (C05; first recorded as known finding KF3, then repaired): a header column that is at once the column of an input `B_out` and the `_out` (expected) column of
/// a bidirectional signal `B`.  An `X` there must be expanded for the input (two executions, 0 then 1) while the expected
/// value of `B` stays the row's `X`; the crate reads the expected value from the expanded entry (0, then 1).  The probe runs
/// exactly that input and attributes to KF3 only that signature; any other deviation on it is reported as a violation.
pub fn probe_kf3(ctx: &mut Ctx, suite: &str) {
    use digital_test_runner::{ExpectedValue, InputEntry, InputValue, OutputEntry, OutputValue, ParsedTestCase, Signal, TestDriver};
    if ctx.only_suite.as_deref().map(|s| s != suite).unwrap_or(false) {
        return;
    }
    #[derive(Debug)]
    struct NoErr;
    impl std::fmt::Display for NoErr {
        fn fmt(&self, f: &mut std::fmt::Formatter<'_>) -> std::fmt::Result {
            write!(f, "no error")
        }
    }
    impl std::error::Error for NoErr {}
    struct Dut(Signal);
    impl TestDriver for Dut {
        type Error = NoErr;
        fn write_input_and_read_output(&mut self, _inputs: &[InputEntry<'_>]) -> Result<Vec<OutputEntry<'_>>, NoErr> {
            Ok(vec![OutputEntry { signal: &self.0, value: OutputValue::Value(1) }])
        }
    }
    let text = "signals=[input B_out:1 default 0, bidirectional B:1 default 0] source=\"B_out\\nX\\n\" device answers B=1".to_string();
    ctx.tick(&text);
    ctx.report.evaluations += 1;
    ctx.report.bump("kf3-probe");
    let outcome = std::panic::catch_unwind(|| {
        let signals = vec![Signal::input("B_out", 1, 0), Signal::bidirectional("B", 1, 0)];
        let test = match "B_out\nX\n".parse::<ParsedTestCase>() {
            Ok(p) => match p.with_signals(signals.clone()) {
                Ok(t) => t,
                Err(e) => return Err(format!("binding refused: {e}")),
            },
            Err(e) => return Err(format!("parse error: {e}")),
        };
        let mut dut = Dut(signals[1].clone());
        let it = match test.try_iter(&mut dut) {
            Ok(it) => it,
            Err(e) => return Err(format!("constructor failed: {e}")),
        };
        let mut rows = vec![];
        for r in it {
            match r {
                Ok(row) => {
                    let inp: Vec<InputValue> = row.inputs.iter().filter(|i| i.signal.name == "B_out").map(|i| i.value).collect();
                    let exp: Vec<ExpectedValue> = row.outputs.iter().filter(|o| o.signal.name == "B").map(|o| o.expected).collect();
                    rows.push((inp, exp));
                }
                Err(e) => return Err(format!("error item: {e}")),
            }
        }
        Ok(rows)
    });
    let rows = match outcome {
        Err(_) => {
            add_finding(ctx, "oracle", suite, 0, format!("the shared-column input panics: {}", imp::take_panic()), text, &[], &[]);
            return;
        }
        Ok(Err(e)) => {
            add_finding(ctx, "oracle", suite, 0, format!("the shared-column input does not run: {e}"), text, &[], &[]);
            return;
        }
        Ok(Ok(rows)) => rows,
    };
    let shown: Vec<String> = rows.iter().map(|(i, e)| format!("B_out={i:?} expected(B)={e:?}")).collect();
    let inputs_ok = rows.len() == 2
        && rows[0].0 == vec![InputValue::Value(0)]
        && rows[1].0 == vec![InputValue::Value(1)];
    if !inputs_ok {
        add_finding(ctx, "oracle", suite, 0, format!("an X in an input column must give two executions, 0 then 1: {shown:?}"), text, &shown, &[]);
        return;
    }
    let as_stated = rows.iter().all(|(_, e)| e == &vec![ExpectedValue::X]);
    let kf3 = rows[0].1 == vec![ExpectedValue::Value(0)] && rows[1].1 == vec![ExpectedValue::Value(1)];
    if as_stated {
        ctx.report.bump("kf3-absent");
    } else if kf3 {
        add_finding(
            ctx,
            "known",
            suite,
            0,
            "KF3 an X in a header column that is both the column of an input and the `_out` column of a bidirectional signal is expanded for the expected value too: the bidirectional signal is checked against 0, then 1, instead of the row's X (known_findings.json)".to_string(),
            text,
            &shown,
            &[],
        );
    } else {
        add_finding(ctx, "oracle", suite, 0, format!("the expected value of B is neither the row's X nor the known deviation: {shown:?}"), text, &shown, &[]);
    }
}

pub fn run_property(ctx: &mut Ctx) {
    let t = ctx.thorough();
    let k = |q: u64, th: u64| if t { th } else { q };
    let prop = ctx.prop.clone();
    crate::corpus::run_corpus(ctx);
    match prop.as_str() {
        "C02" | "C05" | "C06" => {
            if prop == "C05" && ctx.part == 0 {
                probe_kf3(ctx, "kf3-probe");
            }
            suite_rows_enum(ctx, "rows-enum");
            suite_run(ctx, "run", k(6000, 60000));
        }
        "C01" | "C03" | "C04" | "C11" | "C13" | "C14" | "C18" => suite_run(ctx, "run", k(6000, 60000)),
        "C17" => suite_run(ctx, "run", k(6000, 60000)),
        "C16" => crate::dig::suite_dig(ctx, "dig", k(2500, 60000)),
        "C15" => {
            suite_c15(ctx, "c15", k(2500, 40000));
            suite_run(ctx, "run", k(1500, 20000));
            crate::dig::suite_dig(ctx, "dig", k(800, 20000));
        }
        "C10" => {
            suite_run(ctx, "run", k(6000, 60000));
            suite_ops(ctx, "ops", k(20, 2000));
        }
        "C07" => {
            suite_mask(ctx, "mask");
            suite_run(ctx, "run", k(600, 30000));
        }
        "C08" => {
            suite_tables(ctx, "tables");
            suite_ops(ctx, "ops", k(60, 3000));
            suite_expr(ctx, "expr", k(1500, 60000));
            suite_ladders(ctx, "ladders", k(1200, 30000));
            suite_text_valid(ctx, "text-valid", k(800, 40000));
            suite_run(ctx, "run", k(1500, 40000));
        }
        "C09" => {
            suite_text_enum(ctx, "text-enum", if ctx.tier == "thorough" { 4 } else { 3 });
            suite_text_raw(ctx, "text-raw", k(2500, 150000));
            suite_text_mutants(ctx, "text-mutants", k(1500, 80000));
            suite_lex(ctx, "lex", k(300, 20000));
            crate::dig::suite_dig(ctx, "dig", k(600, 20000));
        }
        "C12" => {
            suite_text_enum(ctx, "text-enum", if ctx.tier == "thorough" { 4 } else { 3 });
            suite_text_mutants(ctx, "text-mutants", k(2500, 120000));
            suite_text_valid(ctx, "text-valid", k(600, 30000));
            suite_radix_edge(ctx, "radix-edge");
        }
        "C19" => {
            suite_text_valid(ctx, "text-valid", k(1200, 60000));
            suite_run(ctx, "run", k(600, 30000));
            // tests loaded from a .dig file: lines relative to the start of the test's own source text
            crate::dig::suite_dig(ctx, "dig", k(800, 20000));
            suite_big_lines(ctx, "big-lines");
        }
        "C20" => {
            suite_layout(ctx, "layout", k(800, 40000));
            suite_lex(ctx, "lex", k(600, 40000));
            suite_radix_edge(ctx, "radix-edge");
            suite_big_lines(ctx, "big-lines");
        }
        _ => {
            ctx.report.notes.push(format!("no suite registered for {prop}"));
        }
    }
    // Tests come out of `.dig` files: what a property says about signals, widths, defaults, rows and lines it says about the
    // tests loaded from one too.  The properties whose own suites do not include the loader run a short pass of it.
    if !matches!(prop.as_str(), "C09" | "C15" | "C16" | "C19") {
        crate::dig::suite_dig(ctx, "dig", k(400, 8000));
    }
}
