//! Client of the Lean model driver (`dtr_model`): one request line in, answer lines up to `end` out.
use std::io::{BufRead, BufReader, Write};
use std::process::{Child, ChildStdin, ChildStdout, Command, Stdio};

pub struct Model {
    child: Child,
    stdin: ChildStdin,
    stdout: BufReader<ChildStdout>,
    pub requests: u64,
}

impl Model {
    pub fn pid(&self) -> u32 {
        self.child.id()
    }

    pub fn spawn(path: &str) -> std::io::Result<Model> {
        let mut child = Command::new(path).stdin(Stdio::piped()).stdout(Stdio::piped()).spawn()?;
        let stdin = child.stdin.take().unwrap();
        let stdout = BufReader::new(child.stdout.take().unwrap());
        Ok(Model { child, stdin, stdout, requests: 0 })
    }

    pub fn ask(&mut self, req: &str) -> Vec<String> {
        self.requests += 1;
        let mut out = vec![];
        if writeln!(self.stdin, "{req}").is_err() || self.stdin.flush().is_err() {
            out.push("MODEL-DIED".to_string());
            return out;
        }
        loop {
            let mut line = String::new();
            match self.stdout.read_line(&mut line) {
                Ok(0) | Err(_) => {
                    out.push("MODEL-DIED".to_string());
                    return out;
                }
                Ok(_) => {
                    let l = line.trim_end_matches('\n').to_string();
                    if l == "end" {
                        return out;
                    }
                    out.push(l);
                }
            }
        }
    }
}

impl Drop for Model {
    fn drop(&mut self) {
        let _ = self.child.kill();
        let _ = self.child.wait();
    }
}
