//! Runs the real implementation in-process and renders what it did in the canonical line format
//! that the Lean model driver prints as well.
use crate::gen::{driver_value, hex, Case, Dir, Fault, SigSpec};
use digital_test_runner::verif_hooks::{self, RngEvent};
use digital_test_runner::{
    errors::IterationError, ExpectedValue, InputEntry, InputValue, OutputEntry, OutputValue, ParsedTestCase, Signal,
    TestCase, TestDriver,
};
use std::cell::RefCell;
use std::panic::{catch_unwind, AssertUnwindSafe};
use std::rc::Rc;

thread_local! {
    pub static LAST_PANIC: RefCell<Option<String>> = const { RefCell::new(None) };
}

pub fn install_panic_hook() {
    std::panic::set_hook(Box::new(|info| {
        let loc = info.location().map(|l| format!("{}:{}", l.file(), l.line())).unwrap_or_default();
        let msg = if let Some(s) = info.payload().downcast_ref::<&str>() {
            s.to_string()
        } else if let Some(s) = info.payload().downcast_ref::<String>() {
            s.clone()
        } else {
            "?".to_string()
        };
        LAST_PANIC.with(|p| *p.borrow_mut() = Some(format!("{loc} {msg}")));
    }));
}

pub fn take_panic() -> String {
    LAST_PANIC.with(|p| p.borrow_mut().take()).unwrap_or_default()
}

#[derive(Debug)]
pub struct DrvError(pub u32);
impl std::fmt::Display for DrvError {
    fn fmt(&self, f: &mut std::fmt::Formatter<'_>) -> std::fmt::Result {
        write!(f, "driver error {}", self.0)
    }
}
impl std::error::Error for DrvError {}

pub fn to_signal(s: &SigSpec) -> Signal {
    let d = match s.default {
        Some(n) => InputValue::Value(n),
        None => InputValue::Z,
    };
    match s.dir {
        Dir::In => Signal::input(s.name.clone(), s.bits, d),
        Dir::Out => Signal::output(s.name.clone(), s.bits),
        Dir::Bidir => Signal::bidirectional(s.name.clone(), s.bits, d),
        Dir::Virt => unreachable!("virtual signals are taken from the bound test, never constructed"),
    }
}

#[derive(Clone, Debug)]
pub enum Val {
    N(i64),
    Z,
    X,
}

#[derive(Clone, Debug)]
pub enum Resp {
    Ok(Vec<(SigSpec, Val)>),
    Fail(u32),
}

pub fn show_in(v: &InputValue) -> String {
    match v {
        InputValue::Value(n) => n.to_string(),
        InputValue::Z => "Z".into(),
    }
}
pub fn show_out(v: &OutputValue) -> String {
    match v {
        OutputValue::Value(n) => n.to_string(),
        OutputValue::Z => "Z".into(),
        OutputValue::X => "X".into(),
    }
}
pub fn show_exp(v: &ExpectedValue) -> String {
    match v {
        ExpectedValue::Value(n) => n.to_string(),
        ExpectedValue::Z => "Z".into(),
        ExpectedValue::X => "X".into(),
    }
}

pub fn show_inputs(inputs: &[InputEntry<'_>]) -> String {
    let v: Vec<String> = inputs
        .iter()
        .map(|e| format!("{}={}/{}", hex(&e.signal.name), show_in(&e.value), if e.changed { 1 } else { 0 }))
        .collect();
    format!("[{}]", v.join(","))
}

/// What the scripted driver does is a function of the case; what it actually answered is recorded
/// so that the very same answers can be handed to the model.
pub struct Script<'c> {
    case: &'c Case,
    sigs: Vec<Signal>,
    extra: Vec<(SigSpec, Signal)>,
    pub call: usize,
    pub recorded: Vec<Resp>,
    lines: Rc<RefCell<Vec<String>>>,
    /// storage for the answer being returned (signals the entries point into)
    answer: Vec<(usize, u8, Val)>, // (index, 0 = layout / 1 = extra / 2 = virtual signal of the test, value)
    /// the test's own virtual signals, when the driver is one that answers for every signal of the test that is no
    /// input (their values must not matter: a virtual signal is its expression)
    pub virt: Vec<(SigSpec, Signal)>,
}

impl<'c> Script<'c> {
    pub fn new(case: &'c Case, lines: Rc<RefCell<Vec<String>>>) -> Self {
        let sigs = case.layout.iter().map(to_signal).collect();
        // signals a deviating answer may add / substitute: the output-capable signals that are not
        // part of the layout, and one the test has never heard of
        let mut extra: Vec<(SigSpec, Signal)> = case
            .sigs
            .iter()
            .filter(|s| s.is_output() && !case.layout.iter().any(|l| l.name == s.name))
            .map(|s| (s.clone(), to_signal(s)))
            .collect();
        let ghost = SigSpec { name: "GHOST".into(), bits: 5, dir: Dir::Out, default: None };
        extra.push((ghost.clone(), to_signal(&ghost)));
        Script { case, sigs, extra, call: 0, recorded: vec![], lines, answer: vec![], virt: vec![] }
    }

    fn respond(&mut self, kind: &str, inputs: &[InputEntry<'_>]) -> Result<(), DrvError> {
        self.lines.borrow_mut().push(format!("call {kind} in={}", show_inputs(inputs)));
        let k = self.call;
        self.call += 1;
        if let Some(Fault::Fail(at, code)) = &self.case.fault {
            if *at == k {
                self.recorded.push(Resp::Fail(*code));
                return Err(DrvError(*code));
            }
        }
        let mut ans: Vec<(usize, u8, Val)> = vec![];
        for (i, s) in self.case.layout.iter().enumerate() {
            let keep = self.case.read_names.contains(&s.name);
            let v = match driver_value(self.case.drv_seed, k, s, keep, self.case.p_zx) {
                Some(Ok(n)) => Val::N(n),
                Some(Err(false)) => Val::Z,
                _ => Val::X,
            };
            ans.push((i, 0, v));
        }
        if let Some(Fault::Deviate(at, kind, pos)) = &self.case.fault {
            if *at == k {
                let n = ans.len();
                match kind {
                    0 => {
                        if n > 0 {
                            ans.remove(pos % n);
                        }
                    }
                    1 => {
                        let e = pos % self.extra.len();
                        let at = pos % (n + 1);
                        ans.insert(at, (e, 1, Val::N(k as i64)));
                    }
                    2 => {
                        if n > 0 {
                            let d = ans[pos % n].clone();
                            ans.insert(pos % n, d);
                        }
                    }
                    3 => {
                        if n > 1 {
                            let i = pos % (n - 1);
                            ans.swap(i, i + 1);
                        }
                    }
                    _ => {
                        if n > 0 {
                            let e = pos % self.extra.len();
                            let v = ans[pos % n].2.clone();
                            ans[pos % n] = (e, 1, v);
                        }
                    }
                }
            }
        }
        for i in 0..self.virt.len() {
            ans.push((i, 2, Val::N(1000 + k as i64)));
        }
        self.recorded.push(Resp::Ok(
            ans.iter()
                .map(|(i, ex, v)| {
                    let spec = match *ex {
                        0 => self.case.layout[*i].clone(),
                        1 => self.extra[*i].0.clone(),
                        _ => self.virt[*i].0.clone(),
                    };
                    (spec, v.clone())
                })
                .collect(),
        ));
        self.answer = ans;
        Ok(())
    }

    fn entries(&self) -> Vec<OutputEntry<'_>> {
        self.answer
            .iter()
            .map(|(i, ex, v)| OutputEntry {
                signal: match *ex {
                    0 => &self.sigs[*i],
                    1 => &self.extra[*i].1,
                    _ => &self.virt[*i].1,
                },
                value: match v {
                    Val::N(n) => OutputValue::Value(*n),
                    Val::Z => OutputValue::Z,
                    Val::X => OutputValue::X,
                },
            })
            .collect()
    }
}

/// driver that relies on the provided `write_input`
pub struct DrvDefault<'c>(pub Script<'c>);
/// driver with its own `write_input`
pub struct DrvOwn<'c>(pub Script<'c>);

impl<'c> TestDriver for DrvDefault<'c> {
    type Error = DrvError;
    fn write_input_and_read_output(&mut self, inputs: &[InputEntry<'_>]) -> Result<Vec<OutputEntry<'_>>, DrvError> {
        self.0.respond("rw", inputs)?;
        Ok(self.0.entries())
    }
}

impl<'c> TestDriver for DrvOwn<'c> {
    type Error = DrvError;
    fn write_input_and_read_output(&mut self, inputs: &[InputEntry<'_>]) -> Result<Vec<OutputEntry<'_>>, DrvError> {
        self.0.respond("rw", inputs)?;
        Ok(self.0.entries())
    }
    fn write_input(&mut self, inputs: &[InputEntry<'_>]) -> Result<(), DrvError> {
        self.0.respond("wo", inputs)
    }
}

pub trait HasScript<'c> {
    fn script(&mut self) -> &mut Script<'c>;
}
impl<'c> HasScript<'c> for DrvDefault<'c> {
    fn script(&mut self) -> &mut Script<'c> {
        &mut self.0
    }
}
impl<'c> HasScript<'c> for DrvOwn<'c> {
    fn script(&mut self) -> &mut Script<'c> {
        &mut self.0
    }
}

pub struct ImpRun {
    /// the trace up to and including the first error item (what is compared with the model)
    pub lines: Vec<String>,
    /// the same trace continued for a few more `next()` calls after the first error item (only for the
    /// oracles whose property does not stop at the first error: driver protocol, `changed` flags)
    pub post_lines: Vec<String>,
    /// the part of the continued trace behind the first error item that the model reproduces (see `comparable_tail`)
    pub tail_lines: Vec<String>,
    pub script: Vec<Resp>,
    /// epochs of (bound, value) pairs, split at every resetRandom
    pub epochs: Vec<Vec<(i64, i64)>>,
    /// raw RNG event log (for the C17 trace checks)
    pub rng_log: Vec<RngEvent>,
    pub panicked: bool,
}

pub fn spans_str(spans: &[std::ops::Range<usize>]) -> String {
    let v: Vec<String> = spans.iter().map(|s| format!("({} {})", s.start, s.end)).collect();
    format!("[{}]", v.join(" "))
}

pub fn dump_signals(sigs: &[Signal]) -> String {
    let v: Vec<String> = sigs
        .iter()
        .map(|s| {
            let t = match &s.typ {
                digital_test_runner::SignalType::Input { default } => format!("I:{}", show_in(default)),
                digital_test_runner::SignalType::Output => "O:-".to_string(),
                digital_test_runner::SignalType::Bidirectional { default } => format!("B:{}", show_in(default)),
                digital_test_runner::SignalType::Virtual { .. } => "V:-".to_string(),
            };
            format!("{}:{}:{}", hex(&s.name), s.bits, t)
        })
        .collect();
    format!("[{}]", v.join(" "))
}

pub fn parse_line(src: &str) -> (String, Option<ParsedTestCase>) {
    match catch_unwind(|| src.parse::<ParsedTestCase>()) {
        Err(_) => (format!("parse panic {}", take_panic()), None),
        Ok(Err(e)) => (format!("parse err {}", spans_str(&e.at)), None),
        Ok(Ok(p)) => {
            let names: Vec<String> = p.signals.iter().map(|s| hex(s)).collect();
            (format!("parse ok signals=[{}] {}", names.join(" "), p.verif_dump()), Some(p))
        }
    }
}

pub fn bind_line(p: ParsedTestCase, sigs: &[SigSpec]) -> (Vec<String>, Option<TestCase>) {
    let signals: Vec<Signal> = sigs.iter().map(to_signal).collect();
    match catch_unwind(AssertUnwindSafe(|| p.with_signals(signals))) {
        Err(_) => (vec![format!("bind panic {}", take_panic())], None),
        Ok(Err(e)) => (vec!["bind err".to_string(), format!("# {:?}", e)], None),
        Ok(Ok(tc)) => (
            vec![format!("bind ok signals={} {}", dump_signals(&tc.signals), verif_hooks::dump_test_case(&tc))],
            Some(tc),
        ),
    }
}

fn show_outputs(row: &digital_test_runner::DataRow<'_>) -> String {
    // `check()`, `is_checked()` and `failing_outputs()` are code of the crate too: a panic in them is a finding, not a
    // harness failure
    match catch_unwind(AssertUnwindSafe(|| show_outputs_inner(row))) {
        Ok(s) => s,
        Err(_) => format!("[panic-in-verdict:{}]", take_panic()),
    }
}

fn show_outputs_inner(row: &digital_test_runner::DataRow<'_>) -> String {
    let failing: Vec<*const digital_test_runner::OutputResultEntry<'_>> =
        row.failing_outputs().map(|e| e as *const _).collect();
    let v: Vec<String> = row
        .outputs
        .iter()
        .map(|e| {
            let in_failing = failing.contains(&(e as *const _));
            format!(
                "{}:{}:{}:{}{}{}",
                hex(&e.signal.name),
                show_out(&e.output),
                show_exp(&e.expected),
                if e.check() { "p" } else { "f" },
                if e.is_checked() { "c" } else { "u" },
                if in_failing { "F" } else { "-" },
            )
        })
        .collect();
    format!("[{}]", v.join(","))
}

fn show_vars(vars: std::collections::HashMap<String, i64>) -> String {
    let mut v: Vec<(String, i64)> = vars.into_iter().collect();
    v.sort();
    let v: Vec<String> = v.iter().map(|(k, n)| format!("{}={}", hex(k), n)).collect();
    format!("[{}]", v.join(","))
}

fn iterate<'c, D: TestDriver<Error = DrvError> + HasScript<'c>>(
    tc: &TestCase,
    drv: &mut D,
    lines: &Rc<RefCell<Vec<String>>>,
    cap: usize,
) -> bool {
    struct Own<'b, D>(&'b mut D);
    let own = Own(drv);
    let ctor = catch_unwind(AssertUnwindSafe(move || {
        let Own(d) = own;
        tc.try_iter(d)
    }));
    let mut it = match ctor {
        Err(_) => {
            lines.borrow_mut().push(format!("ctor panic {}", take_panic()));
            return true;
        }
        Ok(Err(IterationError::Driver(e))) => {
            lines.borrow_mut().push(format!("ctor err driver:{}", e.0));
            return false;
        }
        Ok(Err(IterationError::Runtime(e))) => {
            lines.borrow_mut().push("ctor err runtime".to_string());
            lines.borrow_mut().push(format!("# {e}"));
            return false;
        }
        Ok(Ok(it)) => it,
    };
    lines.borrow_mut().push("ctor ok".to_string());
    let mut k = 0;
    // number of error items seen; after the first one the trace is continued behind a `posterr` marker
    let mut post = 0usize;
    loop {
        if post > 4 {
            return false;
        }
        if k >= cap {
            lines.borrow_mut().push(format!("item {k} cap"));
            return false;
        }
        let item = catch_unwind(AssertUnwindSafe(|| it.next()));
        match item {
            Err(_) => {
                // also behind an error item: every `next()` returns a row, an error item or the end
                // (C10_run_no_panic_continued)
                lines.borrow_mut().push(format!("item {k} panic {}", take_panic()));
                return true;
            }
            Ok(None) => {
                let before = lines.borrow().len();
                let again = catch_unwind(AssertUnwindSafe(|| it.next().is_none() && it.next().is_none())).unwrap_or(false);
                let silent = lines.borrow().len() == before;
                lines.borrow_mut().truncate(before);
                lines
                    .borrow_mut()
                    .push(format!("item {k} none{}", if again && silent { "" } else { " NOT-STICKY" }));
                return false;
            }
            Ok(Some(Err(IterationError::Driver(e)))) => {
                lines.borrow_mut().push(format!("item {k} err driver:{}", e.0));
                if post == 0 {
                    lines.borrow_mut().push("posterr".to_string());
                }
                post += 1;
                k += 1;
                continue;
            }
            Ok(Some(Err(IterationError::Runtime(e)))) => {
                lines.borrow_mut().push(format!("item {k} err runtime"));
                lines.borrow_mut().push(format!("# {e}"));
                if post == 0 {
                    lines.borrow_mut().push("posterr".to_string());
                }
                post += 1;
                k += 1;
                continue;
            }
            Ok(Some(Ok(row))) => {
                let vars = match catch_unwind(AssertUnwindSafe(|| it.vars())) {
                    Ok(v) => show_vars(v),
                    Err(_) => {
                        lines.borrow_mut().push(format!("item {k} panic vars {}", take_panic()));
                        return true;
                    }
                };
                lines.borrow_mut().push(format!(
                    "item {k} row line={} in={} out={} vars={}",
                    row.line,
                    show_inputs(&row.inputs),
                    show_outputs(&row),
                    vars
                ));
            }
        }
        k += 1;
    }
}

fn epochs_of(log: &[RngEvent]) -> Vec<Vec<(i64, i64)>> {
    let mut epochs = vec![vec![]];
    let mut bound: Option<i64> = None;
    for ev in log {
        match ev {
            RngEvent::NewContext => {}
            RngEvent::Reset => epochs.push(vec![]),
            RngEvent::Bound(b) => bound = Some(*b),
            RngEvent::Draw(v) => {
                epochs.last_mut().unwrap().push((bound.take().unwrap_or(i64::MIN), *v));
            }
        }
    }
    epochs
}

/// dynamic run of the whole pipeline on one case
pub fn run_dynamic(case: &Case, src: &str) -> ImpRun {
    let _ = verif_hooks::take_rng_log();
    verif_hooks::set_seed(Some(case.rng_seed));
    let lines = Rc::new(RefCell::new(Vec::<String>::new()));
    let mut script = vec![];
    let mut panicked = false;
    let (pl, parsed) = parse_line(src);
    panicked |= pl.starts_with("parse panic");
    lines.borrow_mut().push(pl);
    if let Some(p) = parsed {
        let (bl, tc) = bind_line(p, &case.sigs);
        panicked |= bl[0].starts_with("bind panic");
        lines.borrow_mut().extend(bl);
        if let Some(tc) = tc {
            // every other case runs on a clone of the bound test: a copy must behave like the original
            let tc = if case.drv_seed % 2 == 0 { tc.clone() } else { tc };
            let virt: Vec<(SigSpec, Signal)> = if case.tags.contains(&"echo-virtual") {
                tc.signals
                    .iter()
                    .filter(|s| !s.is_input() && !s.is_output())
                    .map(|s| (SigSpec { name: s.name.clone(), bits: s.bits, dir: Dir::Virt, default: None }, s.clone()))
                    .collect()
            } else {
                vec![]
            };
            if case.own_wo {
                let mut drv = DrvOwn(Script::new(case, lines.clone()));
                drv.0.virt = virt;
                panicked |= iterate(&tc, &mut drv, &lines, case.cap);
                script = std::mem::take(&mut drv.0.recorded);
            } else {
                let mut drv = DrvDefault(Script::new(case, lines.clone()));
                drv.0.virt = virt;
                panicked |= iterate(&tc, &mut drv, &lines, case.cap);
                script = std::mem::take(&mut drv.0.recorded);
            }
        }
    }
    let rng_log = verif_hooks::take_rng_log();
    let epochs = epochs_of(&rng_log);
    let all = lines.borrow().clone();
    let cut = all.iter().position(|l| l == "posterr").unwrap_or(all.len());
    let post_lines: Vec<String> = all.iter().filter(|l| *l != "posterr").cloned().collect();
    let mut tail_lines = if cut < all.len() { comparable_tail(&all[..cut], &all[cut + 1..]) } else { vec![] };
    if tail_lines.last().map(|l| l.starts_with("item ") && l.contains(" none")).unwrap_or(false) {
        // the draws of the whole run, those made before a failing sub-expression included
        let draws = rng_log.iter().filter(|e| matches!(e, RngEvent::Draw(_))).count();
        tail_lines.push(format!("rng draws={draws}"));
    }
    let mut lines: Vec<String> = all[..cut].to_vec();
    if lines.last().map(|l| l.starts_with("item ") && l.contains(" none")).unwrap_or(false) {
        let draws = rng_log.iter().filter(|e| matches!(e, RngEvent::Draw(_))).count();
        lines.push(format!("rng draws={draws}"));
    }
    ImpRun { lines, post_lines, tail_lines, script, epochs, rng_log, panicked }
}

/// The part of the trace behind the first error item that the model reproduces: all of it — the run is followed
/// behind every error item (`Model/AfterError`: the state the code is left in), up to five error items in all
/// (`iterate` stops there, and so does `Main.lean: runItems`).
pub fn comparable_tail(_prefix: &[String], tail: &[String]) -> Vec<String> {
    tail.iter().filter(|l| !l.starts_with("rng ")).cloned().collect()
}

/// static run (`try_iter_static`) of an already bound test
pub fn run_static(tc: &TestCase, cap: usize, rng_seed: u64) -> (Vec<String>, Vec<Vec<(i64, i64)>>, bool) {
    let _ = verif_hooks::take_rng_log();
    verif_hooks::set_seed(Some(rng_seed));
    let mut lines = vec![];
    let mut panicked = false;
    match catch_unwind(AssertUnwindSafe(|| tc.try_iter_static())) {
        Err(_) => {
            lines.push(format!("static panic {}", take_panic()));
            panicked = true;
        }
        Ok(Err(_)) => lines.push("static notstatic".to_string()),
        Ok(Ok(mut it)) => {
            lines.push("static ok".to_string());
            let mut n_err = 0usize;
            let mut k = 0;
            loop {
                if k >= cap {
                    lines.push(format!("sitem {k} cap"));
                    break;
                }
                match catch_unwind(AssertUnwindSafe(|| it.next())) {
                    Err(_) => {
                        lines.push(format!("sitem {k} panic {}", take_panic()));
                        panicked = true;
                        break;
                    }
                    Ok(None) => {
                        lines.push(format!("sitem {k} none"));
                        break;
                    }
                    Ok(Some(Err(e))) => {
                        lines.push(format!("sitem {k} err runtime"));
                        lines.push(format!("# {e}"));
                        // the run is continued behind error items (up to five), behind a `posterr` marker
                        if n_err == 0 {
                            lines.push("posterr".to_string());
                        }
                        n_err += 1;
                        if n_err >= 5 {
                            break;
                        }
                    }
                    Ok(Some(Ok(row))) => {
                        let exp: Vec<String> = row
                            .expected
                            .iter()
                            .map(|e| format!("{}:{}", hex(&e.signal.name), show_exp(&e.value)))
                            .collect();
                        lines.push(format!(
                            "sitem {k} row line={} in={} exp=[{}]",
                            row.line,
                            show_inputs(&row.inputs),
                            exp.join(",")
                        ));
                    }
                }
                k += 1;
            }
        }
    }
    let epochs = epochs_of(&verif_hooks::take_rng_log());
    (lines, epochs, panicked)
}

// ---------------------------------------------------------------------------------------------
// request encoding for the model driver

pub fn enc_sig(s: &SigSpec) -> String {
    let (t, d) = match s.dir {
        Dir::In => ("I", s.default.map(|n| n.to_string()).unwrap_or("Z".into())),
        Dir::Out => ("O", "-".to_string()),
        Dir::Bidir => ("B", s.default.map(|n| n.to_string()).unwrap_or("Z".into())),
        Dir::Virt => ("V", "-".to_string()),
    };
    format!("{} {} {} {}", hex(&s.name), s.bits, t, d)
}

pub fn enc_val(v: &Val) -> String {
    match v {
        Val::N(n) => n.to_string(),
        Val::Z => "Z".into(),
        Val::X => "X".into(),
    }
}

pub fn enc_run_request(
    src: &str,
    sigs: &[SigSpec],
    own_wo: bool,
    script: &[Resp],
    epochs: &[Vec<(i64, i64)>],
    cap: usize,
    do_static: bool,
) -> String {
    let mut s = format!("run {} {}", hex(src), sigs.len());
    for g in sigs {
        s.push(' ');
        s.push_str(&enc_sig(g));
    }
    s.push_str(&format!(" {} {}", if own_wo { 1 } else { 0 }, script.len()));
    for r in script {
        match r {
            Resp::Fail(c) => s.push_str(&format!(" F {c}")),
            Resp::Ok(outs) => {
                s.push_str(&format!(" O {}", outs.len()));
                for (g, v) in outs {
                    s.push(' ');
                    s.push_str(&enc_sig(g));
                    s.push(' ');
                    s.push_str(&enc_val(v));
                }
            }
        }
    }
    s.push_str(&format!(" {}", epochs.len()));
    for ep in epochs {
        s.push_str(&format!(" {}", ep.len()));
        for (b, v) in ep {
            s.push_str(&format!(" {b} {v}"));
        }
    }
    s.push_str(&format!(" {} {}", cap, if do_static { 1 } else { 0 }));
    s
}

/// parse + bind only; the bound test (for the C15 suites)
pub fn load(case: &Case, src: &str) -> Option<TestCase> {
    let (_, parsed) = parse_line(src);
    let p = parsed?;
    let (_, tc) = bind_line(p, &case.sigs);
    tc
}

/// static run of a case: parse, bind, `try_iter_static`
pub fn run_static_case(case: &Case, src: &str) -> Option<(Vec<String>, Vec<Vec<(i64, i64)>>, bool)> {
    let tc = load(case, src)?;
    Some(run_static(&tc, case.cap, case.rng_seed))
}

/// two iterators over ONE bound test, each with its own driver (same plan), advanced in the order
/// given by `schedule` (false = first, true = second); returns the two line streams (calls + items)
pub fn run_interleaved(case: &Case, src: &str, schedule: &[bool]) -> Option<(Vec<String>, Vec<String>)> {
    let tc = load(case, src)?;
    verif_hooks::set_seed(Some(case.rng_seed));
    let la = Rc::new(RefCell::new(Vec::<String>::new()));
    let lb = Rc::new(RefCell::new(Vec::<String>::new()));
    let mut da = DrvOwn(Script::new(case, la.clone()));
    let mut db = DrvOwn(Script::new(case, lb.clone()));
    let mut da2 = DrvDefault(Script::new(case, la.clone()));
    let mut db2 = DrvDefault(Script::new(case, lb.clone()));
    // the iterators borrow the drivers; pick the driver kind once
    fn go<'c, D: TestDriver<Error = DrvError>>(
        tc: &TestCase,
        a: &mut D,
        b: &mut D,
        la: &Rc<RefCell<Vec<String>>>,
        lb: &Rc<RefCell<Vec<String>>>,
        schedule: &[bool],
        cap: usize,
    ) {
        struct Own<'b, D>(&'b mut D);
        let (oa, ob) = (Own(a), Own(b));
        let ia = catch_unwind(AssertUnwindSafe(move || {
            let Own(d) = oa;
            tc.try_iter(d)
        }));
        let ib = catch_unwind(AssertUnwindSafe(move || {
            let Own(d) = ob;
            tc.try_iter(d)
        }));
        let (mut ia, mut ib) = match (ia, ib) {
            (Ok(Ok(x)), Ok(Ok(y))) => {
                la.borrow_mut().push("ctor ok".into());
                lb.borrow_mut().push("ctor ok".into());
                (x, y)
            }
            _ => {
                la.borrow_mut().push("ctor not-ok".into());
                lb.borrow_mut().push("ctor not-ok".into());
                return;
            }
        };
        let (mut ka, mut kb, mut done_a, mut done_b) = (0usize, 0usize, false, false);
        let mut step = 0usize;
        while !(done_a && done_b) {
            let second = schedule.get(step % schedule.len().max(1)).copied().unwrap_or(false);
            step += 1;
            let (it, lines, k, done): (&mut dyn Iterator<Item = _>, _, &mut usize, &mut bool) =
                if (second && !done_b) || done_a { (&mut ib, lb, &mut kb, &mut done_b) } else { (&mut ia, la, &mut ka, &mut done_a) };
            if *k >= cap {
                lines.borrow_mut().push(format!("item {k} cap"));
                *done = true;
                continue;
            }
            match catch_unwind(AssertUnwindSafe(|| it.next())) {
                Err(_) => {
                    lines.borrow_mut().push(format!("item {k} panic {}", take_panic()));
                    *done = true;
                }
                Ok(None) => {
                    lines.borrow_mut().push(format!("item {k} none"));
                    *done = true;
                }
                Ok(Some(Err(IterationError::Driver(e)))) => {
                    lines.borrow_mut().push(format!("item {k} err driver:{}", e.0));
                    *done = true;
                }
                Ok(Some(Err(IterationError::Runtime(_)))) => {
                    lines.borrow_mut().push(format!("item {k} err runtime"));
                    *done = true;
                }
                Ok(Some(Ok(row))) => {
                    lines.borrow_mut().push(format!(
                        "item {k} row line={} in={} out={}",
                        row.line,
                        show_inputs(&row.inputs),
                        show_outputs(&row)
                    ));
                }
            }
            *k += 1;
        }
    }
    if case.own_wo {
        go(&tc, &mut da, &mut db, &la, &lb, schedule, case.cap);
    } else {
        go(&tc, &mut da2, &mut db2, &la, &lb, schedule, case.cap);
    }
    let _ = verif_hooks::take_rng_log();
    let a = la.borrow().clone();
    let b = lb.borrow().clone();
    Some((a, b))
}

/// parse the same text `n` times: all results must be equal, with signals and entries in the same order
pub fn repeated_parse_problem(case: &Case, src: &str, n: usize) -> Option<String> {
    let first = catch_unwind(|| src.parse::<ParsedTestCase>()).ok()?;
    let Ok(first) = first else { return None };
    let d0 = first.verif_dump();
    let sigs: Vec<Signal> = case.sigs.iter().map(to_signal).collect();
    let t0 = first.clone().with_signals(sigs.clone()).ok();
    for k in 1..n {
        let p = match src.parse::<ParsedTestCase>() {
            Ok(p) => p,
            Err(_) => return Some(format!("parse {k} of the same text failed although the first one succeeded")),
        };
        if p != first {
            return Some(format!("parse {k} of the same text is not equal (==) to the first one"));
        }
        if p.verif_dump() != d0 {
            return Some(format!("parse {k} of the same text differs in its recorded reads / declarations / order:\n{}\n{}", p.verif_dump(), d0));
        }
        let t = p.with_signals(sigs.clone()).ok();
        match (&t0, &t) {
            (Some(a), Some(b)) => {
                if a != b {
                    return Some(format!("binding parse {k} gives a different TestCase (==)"));
                }
                if dump_signals(&a.signals) != dump_signals(&b.signals) {
                    return Some(format!("binding parse {k} gives the signals in another order: {} vs {}", dump_signals(&b.signals), dump_signals(&a.signals)));
                }
            }
            (None, None) => {}
            _ => return Some(format!("binding parse {k} succeeds/fails differently from the first")),
        }
    }
    None
}
