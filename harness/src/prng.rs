//! Deterministic PRNG (splitmix64): every random choice of a run derives from VERIF_SEED.
#[derive(Clone, Debug)]
pub struct Prng(pub u64);

impl Prng {
    pub fn new(seed: u64) -> Self {
        Prng(seed ^ 0x9E37_79B9_7F4A_7C15)
    }
    pub fn next_u64(&mut self) -> u64 {
        self.0 = self.0.wrapping_add(0x9E37_79B9_7F4A_7C15);
        let mut z = self.0;
        z = (z ^ (z >> 30)).wrapping_mul(0xBF58_476D_1CE4_E5B9);
        z = (z ^ (z >> 27)).wrapping_mul(0x94D0_49BB_1331_11EB);
        z ^ (z >> 31)
    }
    /// uniform in 0..n (n > 0)
    pub fn below(&mut self, n: usize) -> usize {
        (self.next_u64() % (n as u64)) as usize
    }
    /// true with probability num/den
    pub fn chance(&mut self, num: u32, den: u32) -> bool {
        (self.next_u64() % den as u64) < num as u64
    }
    pub fn pick<'a, T>(&mut self, xs: &'a [T]) -> &'a T {
        &xs[self.below(xs.len())]
    }
    pub fn fork(&mut self) -> Prng {
        Prng::new(self.next_u64())
    }
    pub fn shuffle<T>(&mut self, xs: &mut [T]) {
        for i in (1..xs.len()).rev() {
            let j = self.below(i + 1);
            xs.swap(i, j);
        }
    }
}

pub const BOUNDARY: &[i64] = &[
    0, 1, 2, 3, 7, 8, 15, 16, 31, 32, 63, 64, 65, 127, 128, 255, 256, 1023, 65535, 65536,
    0x7FFF_FFFF, 0x8000_0000, 0xFFFF_FFFF, 0x1_0000_0000, (1 << 62) - 1, 1 << 62, i64::MAX - 1, i64::MAX,
];

/// a 64 bit value biased towards boundaries (may be negative)
pub fn any_i64(r: &mut Prng) -> i64 {
    match r.below(10) {
        0..=3 => r.below(5) as i64,
        4..=5 => *r.pick(BOUNDARY),
        6 => -(*r.pick(BOUNDARY)),
        7 => i64::MIN + r.below(3) as i64,
        8 => -(r.below(5) as i64) - 1,
        _ => r.next_u64() as i64,
    }
}
