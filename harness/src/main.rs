mod corpus;
mod dig;
mod gen;
mod imp;
mod model;
mod oracle;
mod prng;
mod suites;

use std::collections::{BTreeMap, HashSet};
use std::sync::atomic::{AtomicU64, Ordering};
use std::sync::{Arc, Mutex};

pub struct Finding {
    /// "oracle" (the implementation fails the property on this case), "model" (implementation and
    /// model disagree on the property-relevant observables), "known" (attributed to a known finding)
    pub kind: &'static str,
    pub suite: String,
    pub case_seed: u64,
    pub what: String,
    pub case_text: String,
    pub imp: Vec<String>,
    pub model: Vec<String>,
}

pub struct Report {
    pub prop: String,
    pub evaluations: u64,
    pub distinct: HashSet<u64>,
    pub nontrivial: HashSet<u64>,
    pub hist: BTreeMap<String, u64>,
    pub samples: Vec<String>,
    pub findings: Vec<Finding>,
    pub exhaustive: Vec<String>,
    pub notes: Vec<String>,
}

impl Report {
    pub fn bump(&mut self, key: &str) {
        *self.hist.entry(key.to_string()).or_insert(0) += 1;
    }
    pub fn bump_n(&mut self, key: &str, n: u64) {
        *self.hist.entry(key.to_string()).or_insert(0) += n;
    }
}

pub struct Ctx {
    pub prop: String,
    pub tier: String,
    pub seed: u64,
    pub model: model::Model,
    pub report: Report,
    pub only_suite: Option<String>,
    pub only_case: Option<u64>,
    /// this process handles the items of an exhaustive enumeration whose index is `part` modulo `parts`
    pub part: u64,
    pub parts: u64,
    pub verbose: bool,
    pub watchdog: Arc<Mutex<(std::time::Instant, String)>>,
    pub max_findings: usize,
}

impl Ctx {
    pub fn thorough(&self) -> bool {
        self.tier == "thorough"
    }
    pub fn tick(&self, what: &str) {
        let mut w = self.watchdog.lock().unwrap();
        *w = (std::time::Instant::now(), what.to_string());
        CASE_CPU0.store(cpu_ticks_all(), std::sync::atomic::Ordering::Relaxed);
    }
    pub fn too_many(&self) -> bool {
        self.report.findings.iter().filter(|f| f.kind != "known").count() >= self.max_findings
    }
}

/// CPU time (clock ticks, 100 per second) this process and the model driver have used when the current case began
static CASE_CPU0: std::sync::atomic::AtomicU64 = std::sync::atomic::AtomicU64::new(0);
static MODEL_PID: std::sync::atomic::AtomicU32 = std::sync::atomic::AtomicU32::new(0);

/// utime + stime of a process from /proc (0 if it cannot be read)
fn cpu_ticks(pid: &str) -> u64 {
    let Ok(stat) = std::fs::read_to_string(format!("/proc/{pid}/stat")) else { return 0 };
    // the fields behind the command name, which is in parentheses and may contain blanks
    let Some(i) = stat.rfind(')') else { return 0 };
    let f: Vec<&str> = stat[i + 1..].split_whitespace().collect();
    // state is f[0]; utime and stime are the 14th and 15th fields of the line = f[11], f[12]
    f.get(11).and_then(|x| x.parse::<u64>().ok()).unwrap_or(0) + f.get(12).and_then(|x| x.parse::<u64>().ok()).unwrap_or(0)
}

fn cpu_ticks_all() -> u64 {
    let m = MODEL_PID.load(std::sync::atomic::Ordering::Relaxed);
    cpu_ticks("self") + if m != 0 { cpu_ticks(&m.to_string()) } else { 0 }
}

pub fn fnv(s: &str) -> u64 {
    let mut h: u64 = 1469598103934665603;
    for b in s.bytes() {
        h = (h ^ b as u64).wrapping_mul(1099511628211);
    }
    h
}

pub fn json_str(s: &str) -> String {
    let mut o = String::from("\"");
    for c in s.chars() {
        match c {
            '"' => o.push_str("\\\""),
            '\\' => o.push_str("\\\\"),
            '\n' => o.push_str("\\n"),
            '\r' => o.push_str("\\r"),
            '\t' => o.push_str("\\t"),
            c if (c as u32) < 0x20 => o.push_str(&format!("\\u{:04x}", c as u32)),
            c => o.push(c),
        }
    }
    o.push('"');
    o
}

fn json_list(v: &[String]) -> String {
    format!("[{}]", v.iter().map(|s| json_str(s)).collect::<Vec<_>>().join(","))
}

static CASES_DONE: AtomicU64 = AtomicU64::new(0);

fn main() {
    imp::install_panic_hook();
    let args: Vec<String> = std::env::args().collect();
    let mut prop = "C01".to_string();
    let mut tier = "quick".to_string();
    let mut seed: u64 = 1;
    let mut model_path = "/verif/lean/.lake/build/bin/dtr_model".to_string();
    let mut out_path = String::new();
    let mut replay_dir = "/verif/replays".to_string();
    let mut only_suite = None;
    let mut only_case = None;
    let mut verbose = false;
    let mut part: u64 = 0;
    let mut parts: u64 = 1;
    let mut i = 1;
    while i < args.len() {
        let a = &args[i];
        let mut val = || {
            i += 1;
            args.get(i).cloned().unwrap_or_default()
        };
        match a.as_str() {
            "--prop" => prop = val(),
            "--tier" => tier = val(),
            "--seed" => seed = val().parse().unwrap_or(1),
            "--model" => model_path = val(),
            "--out" => out_path = val(),
            "--replay-dir" => replay_dir = val(),
            "--suite" => only_suite = Some(val()),
            "--case-seed" => only_case = val().parse().ok(),
            "--verbose" => verbose = true,
            "--probe-long-ident" => {
                // run in a child process by the C09 suite: parses a test with one identifier of n characters; a native
                // stack overflow kills this process, which the parent sees
                let n: usize = val().parse().unwrap_or(1000);
                let name = "v".repeat(n);
                let src = format!("A Y\nlet {name} = 1;\n({name}) 1\n");
                let r = src.parse::<digital_test_runner::ParsedTestCase>();
                println!("probe {}", if r.is_ok() { "ok" } else { "err" });
                std::process::exit(0);
            }
            "--part" => part = val().parse().unwrap_or(0),
            "--parts" => parts = val().parse::<u64>().unwrap_or(1).max(1),
            _ => {
                eprintln!("unknown argument {a}");
                std::process::exit(2);
            }
        }
        i += 1;
    }
    let model = model::Model::spawn(&model_path).expect("cannot start the Lean model driver");
    MODEL_PID.store(model.pid(), std::sync::atomic::Ordering::Relaxed);
    let watchdog = Arc::new(Mutex::new((std::time::Instant::now(), "start".to_string())));
    {
        // a case that does not come back within the limit is reported as such instead of hanging the check
        let w = watchdog.clone();
        let prop = prop.clone();
        let replay_dir = replay_dir.clone();
        let out_path = out_path.clone();
        std::thread::spawn(move || loop {
            std::thread::sleep(std::time::Duration::from_millis(500));
            let (t, what) = w.lock().unwrap().clone();
            // A hang is a case that has USED 90 s of processor time (implementation + model) without coming back — or that
            // sits there for ten minutes without using any.  Wall-clock time alone says nothing on a loaded machine.
            let used = cpu_ticks_all().saturating_sub(CASE_CPU0.load(std::sync::atomic::Ordering::Relaxed)) / 100;
            if (t.elapsed().as_secs() > 90 && used >= 90) || t.elapsed().as_secs() > 600 {
                let _ = std::fs::create_dir_all(&replay_dir);
                let path = format!("{replay_dir}/{prop}-hang.json");
                let _ = std::fs::write(
                    &path,
                    format!(
                        "{{\"property\":{},\"kind\":\"oracle\",\"what\":\"a case did not come back within 90 s of processor time (implementation or model hangs)\",\"case\":{}}}\n",
                        json_str(&prop),
                        json_str(&what)
                    ),
                );
                if !out_path.is_empty() {
                    let _ = std::fs::write(&out_path, format!("{{\"hang\":true,\"replay\":{}}}\n", json_str(&path)));
                }
                println!("HANG replay={path}");
                std::process::exit(3);
            }
        });
    }
    let mut ctx = Ctx {
        prop: prop.clone(),
        tier,
        seed,
        model,
        report: Report {
            prop: prop.clone(),
            evaluations: 0,
            distinct: HashSet::new(),
            nontrivial: HashSet::new(),
            hist: BTreeMap::new(),
            samples: vec![],
            findings: vec![],
            exhaustive: vec![],
            notes: vec![],
        },
        only_suite,
        only_case,
        part,
        parts,
        verbose,
        watchdog,
        max_findings: 5,
    };
    let t0 = std::time::Instant::now();
    if std::panic::catch_unwind(std::panic::AssertUnwindSafe(|| suites::run_property(&mut ctx))).is_err() {
        eprintln!("harness bug: panic outside of a guarded call: {}", imp::take_panic());
        std::process::exit(4);
    }
    let wall = t0.elapsed().as_secs_f64();
    let _ = CASES_DONE.load(Ordering::Relaxed);

    // replay files + JSON summary
    let _ = std::fs::create_dir_all(&replay_dir);
    let mut fjson = vec![];
    for (n, f) in ctx.report.findings.iter().enumerate() {
        let path = format!("{replay_dir}/{}-{}-{}-{n}.json", prop, seed, f.kind);
        let body = format!(
            "{{\"property\":{},\"kind\":{},\"suite\":{},\"case_seed\":{},\"what\":{},\"case\":{},\"implementation\":{},\"model\":{}}}\n",
            json_str(&prop),
            json_str(f.kind),
            json_str(&f.suite),
            f.case_seed,
            json_str(&f.what),
            json_str(&f.case_text),
            json_list(&f.imp),
            json_list(&f.model)
        );
        if f.kind != "known" {
            let _ = std::fs::write(&path, body);
        }
        fjson.push(format!(
            "{{\"kind\":{},\"suite\":{},\"case_seed\":{},\"what\":{},\"replay\":{}}}",
            json_str(f.kind),
            json_str(&f.suite),
            f.case_seed,
            json_str(&f.what),
            json_str(&path)
        ));
    }
    let hist: Vec<String> = ctx.report.hist.iter().map(|(k, v)| format!("{}:{}", json_str(k), v)).collect();
    let summary = format!(
        "{{\"property\":{},\"evaluations\":{},\"distinct\":{},\"distinct_nontrivial\":{},\"histogram\":{{{}}},\"samples\":{},\"exhaustive\":{},\"notes\":{},\"findings\":[{}],\"model_requests\":{},\"wall_s\":{:.2}}}\n",
        json_str(&prop),
        ctx.report.evaluations,
        ctx.report.distinct.len(),
        ctx.report.nontrivial.len(),
        hist.join(","),
        json_list(&ctx.report.samples),
        json_list(&ctx.report.exhaustive),
        json_list(&ctx.report.notes),
        fjson.join(","),
        ctx.model.requests,
        wall
    );
    if out_path.is_empty() {
        print!("{summary}");
    } else {
        std::fs::write(&out_path, &summary).expect("write summary");
    }
    let bad = ctx.report.findings.iter().filter(|f| f.kind != "known").count();
    if ctx.verbose || bad > 0 {
        for f in &ctx.report.findings {
            eprintln!("--- {} [{}] suite={} case_seed={}\n{}\n{}", f.kind, prop, f.suite, f.case_seed, f.what, f.case_text);
            if ctx.verbose {
                for l in &f.imp {
                    eprintln!("I: {l}");
                }
                for l in &f.model {
                    eprintln!("M: {l}");
                }
            }
        }
    }
    std::process::exit(if bad > 0 { 1 } else { 0 });
}
