mod gen;
mod imp;
mod model;
mod prng;

use gen::*;
use prng::Prng;

fn significant(lines: &[String]) -> Vec<String> {
    lines
        .iter()
        .filter(|l| !l.starts_with("# "))
        .map(|l| {
            // panic messages are not compared, only the fact
            if let Some(i) = l.find(" panic") {
                l[..i + 6].to_string()
            } else {
                l.clone()
            }
        })
        .collect()
}

fn main() {
    imp::install_panic_hook();
    let args: Vec<String> = std::env::args().collect();
    let seed: u64 = args.get(1).and_then(|s| s.parse().ok()).unwrap_or(1);
    let n: usize = args.get(2).and_then(|s| s.parse().ok()).unwrap_or(100);
    let model_path = args.get(3).cloned().unwrap_or("/verif/lean/.lake/build/bin/dtr_model".into());
    let mut model = model::Model::spawn(&model_path).expect("spawn model");
    let mut r = Prng::new(seed);
    let prof = Profile::default_run();
    let mut bad = 0;
    for i in 0..n {
        let mut cr = r.fork();
        let case = gen_case(&mut cr, &prof);
        let printed = print(&case.prog, &mut Prng::new(case.style_seed), &case.style);
        if std::env::var("DBG").is_ok() { eprintln!("case {i}\n{}", printed.text); }
        let run = imp::run_dynamic(&case, &printed.text);
        if std::env::var("DBG").is_ok() { eprintln!("impl done: {:?}", run.lines); }
        let req = imp::enc_run_request(&printed.text, &case.sigs, case.own_wo, &run.script, &run.epochs, case.cap, false);
        if std::env::var("DBG").is_ok() { std::fs::write("/tmp/req.txt", format!("{req}\n")).unwrap(); }
        let m = model.ask(&req);
        let a = significant(&run.lines);
        let b = significant(&m);
        if a != b {
            bad += 1;
            if bad <= 3 {
                println!("=== case {i} DISAGREE\n--- src:\n{}\n--- sigs: {:?}\n--- layout: {:?} fault: {:?}", printed.text, case.sigs, case.layout.iter().map(|s| &s.name).collect::<Vec<_>>(), case.fault);
                for k in 0..a.len().max(b.len()) {
                    let x = a.get(k).cloned().unwrap_or_default();
                    let y = b.get(k).cloned().unwrap_or_default();
                    if x != y {
                        println!("I: {x}\nM: {y}");
                        break;
                    } else {
                        println!("=: {x}");
                    }
                }
                for l in run.lines.iter().filter(|l| l.starts_with("# ")) { println!("I{l}"); }
                for l in m.iter().filter(|l| l.starts_with("# ")) { println!("M{l}"); }
            }
        }
    }
    println!("cases={n} disagreements={bad}");
}
