//! Hand-written and minimised past cases: /verif/corpus/all/*.case and /verif/corpus/<property>/*.case.
//! They run first in every check.  Format: see corpus/README.md.
use crate::gen::*;
use crate::oracle::*;
use crate::suites::judge_run_case;
use crate::Ctx;

pub struct CorpusCase {
    pub name: String,
    pub case: Case,
    pub src: String,
    pub expects: Vec<String>,
}

pub fn parse_case(name: &str, text: &str) -> Result<CorpusCase, String> {
    let mut sigs: Vec<SigSpec> = vec![];
    let mut layout_names: Option<Vec<String>> = None;
    let mut own_wo = false;
    let mut fault = None;
    let (mut drv_seed, mut rng_seed) = (7u64, 11u64);
    let mut zx = 0u32;
    let mut reads = vec![];
    let mut expects = vec![];
    let mut src_lines: Vec<String> = vec![];
    let mut in_src = false;
    let mut trailing_newline = true;
    for line in text.split('\n') {
        if in_src {
            if line == "src-end" {
                in_src = false;
            } else {
                src_lines.push(line.to_string());
            }
            continue;
        }
        let w: Vec<&str> = line.split_whitespace().collect();
        if w.is_empty() || w[0].starts_with('#') {
            continue;
        }
        match w[0] {
            "sig" => {
                if w.len() < 5 {
                    return Err(format!("{name}: bad sig line `{line}`"));
                }
                let dir = match w[3] {
                    "in" => Dir::In,
                    "out" => Dir::Out,
                    _ => Dir::Bidir,
                };
                sigs.push(SigSpec { name: w[1].to_string(), bits: w[2].parse().map_err(|_| "bits")?, dir, default: w[4].parse().ok() });
            }
            "layout" => layout_names = Some(w[1..].iter().map(|s| s.to_string()).collect()),
            "own_wo" => own_wo = w.get(1) == Some(&"1"),
            "fault" => {
                fault = match w.get(1).copied() {
                    Some("fail") => Some(Fault::Fail(w[2].parse().unwrap_or(0), w[3].parse().unwrap_or(1))),
                    Some("deviate") => Some(Fault::Deviate(w[2].parse().unwrap_or(0), w[3].parse().unwrap_or(0), w[4].parse().unwrap_or(0))),
                    _ => None,
                }
            }
            "seeds" => {
                drv_seed = w.get(1).and_then(|s| s.parse().ok()).unwrap_or(7);
                rng_seed = w.get(2).and_then(|s| s.parse().ok()).unwrap_or(11);
            }
            "zx" => zx = w.get(1).and_then(|s| s.parse().ok()).unwrap_or(0),
            "reads" => reads = w[1..].iter().map(|s| s.to_string()).collect(),
            "expect" => expects.push(w[1..].join(" ")),
            "no-trailing-newline" => trailing_newline = false,
            "src-begin" => in_src = true,
            _ => return Err(format!("{name}: unknown directive `{line}`")),
        }
    }
    let mut src = src_lines.join("\n").replace("\\r", "\r").replace("\\t", "\t").replace("\\f", "\u{c}");
    if trailing_newline {
        src.push('\n');
    }
    let layout: Vec<SigSpec> = match layout_names {
        Some(ns) => ns.iter().filter_map(|n| sigs.iter().find(|s| &s.name == n).cloned()).collect(),
        None => sigs.iter().filter(|s| s.is_output()).cloned().collect(),
    };
    let case = Case {
        prog: Prog { header: vec![], stmts: vec![] },
        style_seed: 0,
        style: Style::plain(),
        sigs,
        layout,
        own_wo,
        drv_seed,
        fault,
        rng_seed,
        p_zx: zx,
        read_names: reads,
        cap: 400,
        tags: vec!["corpus"],
    };
    Ok(CorpusCase { name: name.to_string(), case, src, expects })
}

/// the expectations written into a corpus case, judged on the implementation's lines
pub fn check_expectations(c: &CorpusCase, lines: &[String]) -> Result<(), String> {
    let ls = significant(lines);
    for e in &c.expects {
        let w: Vec<&str> = e.split(' ').collect();
        let ok = match w[0] {
            "parse-ok" => ls.iter().any(|l| l.starts_with("parse ok")),
            "parse-err" => ls.iter().any(|l| l.starts_with("parse err")),
            "bind-ok" => ls.iter().any(|l| l.starts_with("bind ok")),
            "bind-err" => ls.iter().any(|l| l.starts_with("bind err")),
            "ctor-ok" => ls.iter().any(|l| l.starts_with("ctor ok")),
            "ctor-err" => ls.iter().any(|l| l.starts_with("ctor err")),
            "no-panic" => !ls.iter().any(|l| l.contains(" panic")),
            // `items row,row,err,none`: the kinds of the items in order
            "items" => {
                let kinds: Vec<&str> = ls.iter().filter(|l| l.starts_with("item ")).map(|l| item_kind(l)).collect();
                kinds.join(",") == w.get(1).copied().unwrap_or("")
            }
            // `contains <text>`: some line contains the text
            "contains" => {
                let t = w[1..].join(" ");
                ls.iter().any(|l| l.contains(&t))
            }
            "not-contains" => {
                let t = w[1..].join(" ");
                !ls.iter().any(|l| l.contains(&t))
            }
            // `row <k> <text>`: item k is a row whose line contains the text
            "row" => {
                let k = w.get(1).copied().unwrap_or("0");
                let t = w[2..].join(" ");
                ls.iter().any(|l| l.starts_with(&format!("item {k} row ")) && l.contains(&t))
            }
            _ => return Err(format!("corpus case {}: unknown expectation `{e}`", c.name)),
        };
        if !ok {
            return Err(format!("corpus case {}: expectation `{e}` does not hold", c.name));
        }
    }
    Ok(())
}

pub fn load_dir(dir: &str) -> Vec<CorpusCase> {
    let mut out = vec![];
    let Ok(rd) = std::fs::read_dir(dir) else { return out };
    let mut paths: Vec<_> = rd.filter_map(|e| e.ok()).map(|e| e.path()).filter(|p| p.extension().map(|x| x == "case").unwrap_or(false)).collect();
    paths.sort();
    for p in paths {
        let name = p.file_name().unwrap().to_string_lossy().to_string();
        match std::fs::read_to_string(&p).map_err(|e| e.to_string()).and_then(|t| parse_case(&name, &t)) {
            Ok(c) => out.push(c),
            Err(e) => eprintln!("corpus: {e}"),
        }
    }
    out
}

pub fn run_corpus(ctx: &mut Ctx) {
    if ctx.only_suite.as_deref().map(|s| s != "corpus").unwrap_or(false) {
        return;
    }
    let root = std::env::var("VERIF_CORPUS").unwrap_or("/verif/corpus".to_string());
    let mut cases = load_dir(&format!("{root}/all"));
    cases.extend(load_dir(&format!("{root}/{}", ctx.prop)));
    for c in cases {
        let cs = crate::fnv(&c.name);
        if ctx.only_case.map(|x| x != cs).unwrap_or(false) {
            continue;
        }
        ctx.report.bump("corpus-case");
        let before = ctx.report.findings.len();
        judge_run_case(ctx, "corpus", cs, &c.case, &c.src, None);
        if ctx.prop == "C15" {
            let mut cr = crate::prng::Prng::new(cs);
            crate::suites::judge_c15_case(ctx, "corpus", cs, &c.case, &c.src, &mut cr);
        }
        let _ = before;
        // the expectations are part of the property's oracle
        let run = crate::imp::run_dynamic(&c.case, &c.src);
        if let Err(what) = check_expectations(&c, &run.lines) {
            ctx.report.findings.push(crate::Finding {
                kind: "oracle",
                suite: "corpus".into(),
                case_seed: cs,
                what,
                case_text: crate::suites::describe_case(&c.case, &c.src),
                imp: run.lines.clone(),
                model: vec![],
            });
        }
    }
}
